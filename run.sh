#!/bin/sh
# usage: ./run.sh <property id> <quick|thorough>    (honours VERIF_SEED)
#        ./run.sh replay <file>
# exit 0: property held on everything explored; 1: VIOLATION printed; 2: machinery failed
cd "$(dirname "$0")" || exit 2
unset GOSUMDB GOTOOLCHAIN GOFLAGS
export GOFLAGS=-mod=mod GOPROXY=off
mkdir -p bin
go build -o bin/verif ./cmd/verif || exit 2
if [ "$1" = "replay" ]; then
	exec ./bin/verif replay "$2"
fi
if [ "$1" = "selftest" ]; then
	exec ./bin/verif selftest
fi
exec ./bin/verif check "$1" --tier "${2:-quick}"
