#!/bin/sh
# Build the driver from files on disk only (offline).
set -e
cd "$(dirname "$0")"
unset GOSUMDB GOTOOLCHAIN GOFLAGS
export GOFLAGS=-mod=mod GOPROXY=off
mkdir -p bin
go build -o bin/verif ./cmd/verif
