module simrt

go 1.24.0
