// Package simrt is the runtime half of the simulation seam that simgen
// weaves into a scratch copy of gopatchy/bkl.
//
// It owns the two sources of nondeterminism that live inside the library:
//
//   - the order in which a `range` over a map produces its entries
//     (Range/Keys/Values/All), and
//   - which of several evaluations running "at once" in a process makes the
//     next step (Yield + the cooperative task scheduler).
//
// With no schedule installed every function degenerates to the native
// behaviour, so an instrumented binary without VERIF_SIM_* variables behaves
// like the stock one (this is asserted by the transparency test at every
// build).
//
// Nothing in here reads a clock, a PID or an unordered map for a decision.
package simrt

import (
	"fmt"
	"iter"
	"os"
	"sort"
	"strconv"
	"strings"
	"sync"
	"sync/atomic"
)

// Mode selects how Range orders the keys of a map.
type Mode int

const (
	Native Mode = iota // leave it to the Go runtime
	Hash               // rank = H(seed, site, key); stateless
	HashN              // rank = H(seed, site, key, n); n = per-task range counter
	Asc                // ascending key order
	Desc               // descending key order
	Rot                // ascending order rotated by Rot positions (the "small Go map" orders)
)

func (m Mode) String() string {
	switch m {
	case Native:
		return "Native"
	case Hash:
		return "Hash"
	case HashN:
		return "HashN"
	case Asc:
		return "Asc"
	case Desc:
		return "Desc"
	case Rot:
		return "Rot"
	}
	return "?"
}

func ParseMode(s string) (Mode, error) {
	for m := Native; m <= Rot; m++ {
		if strings.EqualFold(m.String(), s) {
			return m, nil
		}
	}
	return Native, fmt.Errorf("simrt: unknown mode %q", s)
}

// Sched is one iteration schedule.
type Sched struct {
	Mode Mode
	Seed uint64
	// Coin is the probability (0..1) that an entry created during a range is
	// produced by that range. The Go specification allows either.
	Coin float64
	Rot  int
}

// Probes are the "rare condition was hit" counters.
type Probes struct {
	Ranges          int64         // ranges executed over maps
	RangesMulti     int64         // ... over maps with >= 2 keys
	CreatedSeen     int64         // ranges during which a new key appeared
	CreatedProduced int64         // new keys that were produced
	CreatedSkipped  int64         // new keys that were skipped
	DeletedSkipped  int64         // pending keys that disappeared before being reached
	Switches        int64         // task switches
	MaxSteps        int64         // max Yield count of a task
	Steps           int64         // total Yield count
	Sig             uint64        // hash of the sequence (site, produced key) — the schedule signature
	PerSite         map[int]int64 // ranges per site
}

// BudgetExceeded is the panic value raised when a task exceeds the step budget.
type BudgetExceeded struct{ Steps int64 }

func (b BudgetExceeded) Error() string {
	return fmt.Sprintf("simrt: step budget exceeded after %d steps", b.Steps)
}

type task struct {
	id     int
	steps  int64
	nrange uint64
	wake   chan struct{}
	done   bool
}

type state struct {
	sched  Sched
	budget int64
	exitOn bool // CLI mode: exit(97) instead of panicking on budget
	probes Probes
	cur    *task
	coop   *coop
}

var st *state

// Concurrent mode. The seam assumes that one goroutine at a time runs
// instrumented code (bkl starts none). If simgen finds a go statement or an
// import of package sync (or x/sync) in the tree it instruments, it adds an
// init function calling MarkConcurrent: from then on the step counter is
// atomic, the probes are updated under a lock, and the cooperative scheduler
// never switches (a task parked while it holds a lock of the code under test,
// or a hand-over requested by a goroutine the scheduler does not know, would
// deadlock the simulation). Seeded map iteration keeps working; what the
// goroutines of the code under test do among themselves is then not
// schedule-controlled, and the evidence says so.
var (
	concurrent atomic.Bool
	cmu        sync.Mutex
	csteps     atomic.Int64 // steps of the current call, all goroutines
	ctotal     atomic.Int64
)

// MarkConcurrent switches the runtime to concurrent mode (see above).
func MarkConcurrent() { concurrent.Store(true) }

// IsConcurrent reports whether the instrumented tree asked for concurrent mode.
func IsConcurrent() bool { return concurrent.Load() }

func (s *state) lock() {
	if concurrent.Load() {
		cmu.Lock()
	}
}

func (s *state) unlock() {
	if concurrent.Load() {
		cmu.Unlock()
	}
}

func (s *state) foldConcurrent() {
	if !concurrent.Load() {
		return
	}
	if n := csteps.Swap(0); n > s.probes.MaxSteps {
		s.probes.MaxSteps = n
	}
	s.probes.Steps = ctotal.Load()
}

// Install installs a schedule for the solo task. budget <= 0 means unlimited.
func Install(s Sched, budget int64) {
	st = &state{sched: s, budget: budget, cur: &task{}}
	st.probes.PerSite = map[int]int64{}
	st.probes.Sig = 1469598103934665603
}

// Uninstall returns to native behaviour.
func Uninstall() { st = nil }

// Installed reports whether a schedule is installed.
func Installed() bool { return st != nil }

// Snapshot returns the probes accumulated since Install.
func Snapshot() Probes {
	if st == nil {
		return Probes{}
	}
	st.lock()
	defer st.unlock()
	if concurrent.Load() {
		if n := csteps.Load(); n > st.probes.MaxSteps {
			st.probes.MaxSteps = n
		}
		st.probes.Steps = ctotal.Load()
	}
	p := st.probes
	if st.cur != nil && st.cur.steps > p.MaxSteps {
		p.MaxSteps = st.cur.steps
	}
	ps := make(map[int]int64, len(p.PerSite))
	for k, v := range p.PerSite {
		ps[k] = v
	}
	p.PerSite = ps
	return p
}

// ResetTask gives the solo task a fresh step counter (a new "evaluation").
func ResetTask() {
	if st == nil {
		return
	}
	st.foldConcurrent()
	if st.cur != nil && st.cur.steps > st.probes.MaxSteps {
		st.probes.MaxSteps = st.cur.steps
	}
	st.cur = &task{}
}

// BeginCall gives the current task a fresh step counter: the step budget
// bounds one API call (one evaluation), not a whole history.
func BeginCall() {
	if st == nil || st.cur == nil {
		return
	}
	st.foldConcurrent()
	if st.cur.steps > st.probes.MaxSteps {
		st.probes.MaxSteps = st.cur.steps
	}
	st.cur.steps = 0
}

// ---------------------------------------------------------------------------
// hashing

func mix(h uint64, v uint64) uint64 {
	h ^= v
	h *= 0x9E3779B97F4A7C15
	h ^= h >> 32
	h *= 0xD6E8FEB86659FD93
	h ^= h >> 29
	return h
}

func hashStr(h uint64, s string) uint64 {
	for i := 0; i < len(s); i++ {
		h ^= uint64(s[i])
		h *= 1099511628211
	}
	return mix(h, uint64(len(s)))
}

func keyStr[K comparable](k K) string {
	if s, ok := any(k).(string); ok {
		return s
	}
	return fmt.Sprint(k)
}

func (s *state) rank(site int, key string, n uint64) uint64 {
	h := mix(s.sched.Seed, uint64(site)+0x51ed)
	if s.sched.Mode == HashN {
		h = mix(h, n+1)
	}
	return hashStr(h, key)
}

// coin decides whether a key created during a range is produced.
func (s *state) coin(site int, key string, n uint64) (bool, uint64) {
	h := hashStr(mix(mix(s.sched.Seed, 0xC01D), uint64(site)), key)
	if s.sched.Mode == HashN {
		h = mix(h, n+1)
	}
	h = mix(h, 0xABCD)
	u := float64(h>>11) / float64(uint64(1)<<53)
	return u < s.sched.Coin, h
}

// ---------------------------------------------------------------------------
// Range

type entry struct {
	s string
	r uint64
}

func order[K comparable](s *state, site int, n uint64, keys []K) []K {
	type ke struct {
		k K
		e entry
	}
	es := make([]ke, len(keys))
	for i, k := range keys {
		ks := keyStr(k)
		es[i] = ke{k, entry{ks, 0}}
		if s.sched.Mode == Hash || s.sched.Mode == HashN {
			es[i].e.r = s.rank(site, ks, n)
		}
	}
	switch s.sched.Mode {
	case Hash, HashN:
		sort.Slice(es, func(i, j int) bool {
			if es[i].e.r != es[j].e.r {
				return es[i].e.r < es[j].e.r
			}
			return es[i].e.s < es[j].e.s
		})
	case Desc:
		sort.Slice(es, func(i, j int) bool { return es[i].e.s > es[j].e.s })
	default: // Asc, Rot
		sort.Slice(es, func(i, j int) bool { return es[i].e.s < es[j].e.s })
	}
	out := make([]K, len(es))
	for i := range es {
		out[i] = es[i].k
	}
	if s.sched.Mode == Rot && len(out) > 1 {
		r := s.sched.Rot % len(out)
		if r < 0 {
			r += len(out)
		}
		out = append(append([]K{}, out[r:]...), out[:r]...)
	}
	return out
}

// Range is what `for k, v := range m` over a map is rewritten to. It
// implements the whole legal behaviour of a Go map range: any order; an entry
// removed before it is reached is not produced; an entry created during the
// loop is produced or skipped (seeded coin).
func Range[M ~map[K]V, K comparable, V any](site int, m M) iter.Seq2[K, V] {
	s := st
	if s == nil || s.sched.Mode == Native {
		return func(yield func(K, V) bool) {
			for k, v := range m {
				if !yield(k, v) {
					return
				}
			}
		}
	}
	return func(yield func(K, V) bool) {
		s.lock()
		t := s.cur
		t.nrange++
		n := t.nrange
		s.probes.Ranges++
		s.probes.PerSite[site]++
		if len(m) >= 2 {
			s.probes.RangesMulti++
		}
		s.unlock()
		keys := make([]K, 0, len(m))
		seen := make(map[K]struct{}, len(m))
		for k := range m {
			keys = append(keys, k)
			seen[k] = struct{}{}
		}
		pending := order(s, site, n, keys)
		sawCreated := false
		for len(pending) > 0 {
			k := pending[0]
			pending = pending[1:]
			v, ok := m[k]
			if !ok {
				s.lock()
				s.probes.DeletedSkipped++
				s.unlock()
				continue
			}
			s.lock()
			s.probes.Sig = hashStr(mix(s.probes.Sig, uint64(site)), keyStr(k))
			s.unlock()
			if !yield(k, v) {
				return
			}
			// entries created by the loop body
			if len(m) == 0 {
				continue
			}
			var fresh []K
			for k2 := range m {
				if _, was := seen[k2]; !was {
					seen[k2] = struct{}{}
					fresh = append(fresh, k2)
				}
			}
			if len(fresh) == 0 {
				continue
			}
			s.lock()
			if !sawCreated {
				sawCreated = true
				s.probes.CreatedSeen++
			}
			s.unlock()
			sort.Slice(fresh, func(i, j int) bool { return keyStr(fresh[i]) < keyStr(fresh[j]) })
			for _, k2 := range fresh {
				produce, h := s.coin(site, keyStr(k2), n)
				if !produce {
					s.lock()
					s.probes.CreatedSkipped++
					s.unlock()
					continue
				}
				s.lock()
				s.probes.CreatedProduced++
				s.unlock()
				pos := int(mix(h, 0x9051) % uint64(len(pending)+1))
				pending = append(pending, k2)
				copy(pending[pos+1:], pending[pos:])
				pending[pos] = k2
			}
		}
	}
}

// Keys replaces maps.Keys.
func Keys[M ~map[K]V, K comparable, V any](site int, m M) iter.Seq[K] {
	return func(yield func(K) bool) {
		for k := range Range(site, m) {
			if !yield(k) {
				return
			}
		}
	}
}

// Values replaces maps.Values.
func Values[M ~map[K]V, K comparable, V any](site int, m M) iter.Seq[V] {
	return func(yield func(V) bool) {
		for _, v := range Range(site, m) {
			if !yield(v) {
				return
			}
		}
	}
}

// All replaces maps.All.
func All[M ~map[K]V, K comparable, V any](site int, m M) iter.Seq2[K, V] {
	return Range(site, m)
}

// KeysSlice replaces golang.org/x/exp/maps.Keys (slice in unspecified order).
func KeysSlice[M ~map[K]V, K comparable, V any](site int, m M) []K {
	r := make([]K, 0, len(m))
	for k := range Range(site, m) {
		r = append(r, k)
	}
	return r
}

// ValuesSlice replaces golang.org/x/exp/maps.Values.
func ValuesSlice[M ~map[K]V, K comparable, V any](site int, m M) []V {
	r := make([]V, 0, len(m))
	for _, v := range Range(site, m) {
		r = append(r, v)
	}
	return r
}

// ---------------------------------------------------------------------------
// Yield and the cooperative scheduler

// Yield is inserted at the entry of every function of the instrumented tree.
// It counts a step for the current task and lets the task scheduler switch.
func Yield(site int) {
	s := st
	if s == nil {
		return
	}
	if concurrent.Load() {
		ctotal.Add(1)
		if n := csteps.Add(1); s.budget > 0 && n > s.budget {
			if s.exitOn {
				Flush()
				fmt.Fprintf(os.Stderr, "VERIF_SIM: step budget exceeded after %d steps\n", n)
				os.Exit(97)
			}
			panic(BudgetExceeded{n})
		}
		return
	}
	t := s.cur
	t.steps++
	s.probes.Steps++
	if s.budget > 0 && t.steps > s.budget {
		if s.exitOn {
			Flush()
			fmt.Fprintf(os.Stderr, "VERIF_SIM: step budget exceeded after %d steps\n", t.steps)
			os.Exit(97)
		}
		panic(BudgetExceeded{t.steps})
	}
	if s.coop != nil {
		s.coop.maybeSwitch(t)
	}
}

// Switch is one recorded scheduling decision: at global yield number At the
// running task handed over to task To.
type Switch struct {
	At uint64 `json:"at"`
	To int    `json:"to"`
}

type coop struct {
	tasks   []*task
	prob    float64
	rng     uint64
	nyield  uint64
	replay  []Switch // if non-nil, decisions come from here
	rpos    int
	useRepl bool
	log     []Switch
	alldone chan struct{}
	panics  []any
}

func (c *coop) next64() uint64 {
	c.rng += 0x9E3779B97F4A7C15
	z := c.rng
	z = (z ^ (z >> 30)) * 0xBF58476D1CE4E5B9
	z = (z ^ (z >> 27)) * 0x94D049BB133111EB
	return z ^ (z >> 31)
}

func (c *coop) runnable(except *task) []*task {
	var r []*task
	for _, t := range c.tasks {
		if !t.done && t != except {
			r = append(r, t)
		}
	}
	return r
}

func (c *coop) maybeSwitch(t *task) {
	c.nyield++
	var to *task
	if c.useRepl {
		if c.rpos < len(c.replay) && c.replay[c.rpos].At == c.nyield {
			id := c.replay[c.rpos].To
			c.rpos++
			if id >= 0 && id < len(c.tasks) && !c.tasks[id].done && c.tasks[id] != t {
				to = c.tasks[id]
			}
		}
	} else {
		u := float64(c.next64()>>11) / float64(uint64(1)<<53)
		if u < c.prob {
			others := c.runnable(t)
			if len(others) > 0 {
				to = others[int(c.next64()%uint64(len(others)))]
			}
		}
	}
	if to == nil {
		return
	}
	c.log = append(c.log, Switch{c.nyield, to.id})
	st.probes.Switches++
	st.cur = to
	to.wake <- struct{}{}
	<-t.wake
}

// finish is called by a task goroutine when its function returns.
func (c *coop) finish(t *task) {
	t.done = true
	if t.steps > st.probes.MaxSteps {
		st.probes.MaxSteps = t.steps
	}
	others := c.runnable(t)
	if len(others) == 0 {
		close(c.alldone)
		return
	}
	// deterministic choice of successor: lowest id (the seeded choices are
	// the switches; who continues after an exit is not a degree of freedom
	// worth a random draw)
	to := others[0]
	st.cur = to
	to.wake <- struct{}{}
}

// RunTasks runs fns as cooperative tasks: exactly one runs at a time, and at
// every Yield the seeded scheduler may hand over to another one. If replay is
// non-nil the hand-overs are taken from it instead of from the PRNG. It
// returns the hand-overs that happened and, per task, the recovered panic
// value (nil if the task returned normally). A schedule must be installed.
func RunTasks(seed uint64, prob float64, replay []Switch, useReplay bool, fns []func()) ([]Switch, []any) {
	if st == nil {
		panic("simrt: RunTasks without Install")
	}
	c := &coop{prob: prob, rng: seed, replay: replay, useRepl: useReplay, alldone: make(chan struct{})}
	c.panics = make([]any, len(fns))
	for i := range fns {
		c.tasks = append(c.tasks, &task{id: i, wake: make(chan struct{})})
	}
	if len(fns) == 0 {
		return nil, nil
	}
	st.coop = c
	for i, fn := range fns {
		t := c.tasks[i]
		fn := fn
		go func() {
			<-t.wake
			defer c.finish(t)
			defer func() {
				if r := recover(); r != nil {
					c.panics[t.id] = r
				}
			}()
			fn()
		}()
	}
	st.cur = c.tasks[0]
	c.tasks[0].wake <- struct{}{}
	<-c.alldone
	st.coop = nil
	st.cur = &task{}
	return c.log, c.panics
}

// ---------------------------------------------------------------------------
// CLI mode: configuration from the environment, statistics to a file

var statsPath string

func init() {
	mode := os.Getenv("VERIF_SIM_MODE")
	if mode == "" {
		return
	}
	m, err := ParseMode(mode)
	if err != nil {
		fmt.Fprintln(os.Stderr, err)
		os.Exit(98)
	}
	seed, _ := strconv.ParseUint(os.Getenv("VERIF_SIM_SEED"), 10, 64)
	coin, _ := strconv.ParseFloat(os.Getenv("VERIF_SIM_COIN"), 64)
	rot, _ := strconv.Atoi(os.Getenv("VERIF_SIM_ROT"))
	budget, _ := strconv.ParseInt(os.Getenv("VERIF_SIM_STEP_BUDGET"), 10, 64)
	Install(Sched{Mode: m, Seed: seed, Coin: coin, Rot: rot}, budget)
	st.exitOn = true
	statsPath = os.Getenv("VERIF_SIM_STATS")
}

// Flush writes the probes to VERIF_SIM_STATS (CLI mode). simgen inserts a
// deferred call in main and routes os.Exit through Exit.
func Flush() {
	if st == nil || statsPath == "" {
		return
	}
	p := Snapshot()
	f, err := os.OpenFile(statsPath, os.O_WRONLY|os.O_CREATE|os.O_TRUNC, 0o644)
	if err != nil {
		return
	}
	fmt.Fprintf(f, "steps=%d ranges=%d ranges_multi=%d created_seen=%d created_produced=%d created_skipped=%d deleted_skipped=%d sig=%d\n",
		p.MaxSteps, p.Ranges, p.RangesMulti, p.CreatedSeen, p.CreatedProduced, p.CreatedSkipped, p.DeletedSkipped, p.Sig)
	f.Close()
}

// Exit replaces os.Exit in instrumented main packages.
func Exit(code int) {
	Flush()
	os.Exit(code)
}
