// stub is the recording stand-in for the program wrapped by bklb /
// kubectl-bkl. It records its argv and the bytes of every argument that names
// an existing regular file into the directory named by VERIF_STUB_DIR.
package main

import (
	"fmt"
	"os"
	"path/filepath"
	"strings"
)

func main() {
	dir := os.Getenv("VERIF_STUB_DIR")
	if dir == "" {
		fmt.Fprintln(os.Stderr, "stub: VERIF_STUB_DIR not set")
		os.Exit(9)
	}
	if err := os.WriteFile(filepath.Join(dir, "argv"), []byte(strings.Join(os.Args, "\x00")), 0o644); err != nil {
		os.Exit(9)
	}
	for i, a := range os.Args {
		if fi, err := os.Stat(a); err == nil && fi.Mode().IsRegular() {
			if b, err := os.ReadFile(a); err == nil {
				_ = os.WriteFile(filepath.Join(dir, fmt.Sprintf("file%d", i)), b, 0o644)
			}
		}
	}
	fmt.Println("stub ran")
	_ = os.WriteFile(filepath.Join(dir, "done"), []byte("1"), 0o644)
}
