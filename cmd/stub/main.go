// stub is the recording stand-in for the program wrapped by bklb /
// kubectl-bkl. It records its argv and the bytes of every argument that names
// an existing regular file into the directory named by VERIF_STUB_DIR. With
// VERIF_STUB_GATE set it records argv at once and reads the files only when
// that path exists (the simulation runs a rival invocation in between).
package main

import (
	"fmt"
	"os"
	"path/filepath"
	"strings"
	"time"
)

func main() {
	dir := os.Getenv("VERIF_STUB_DIR")
	if dir == "" {
		fmt.Fprintln(os.Stderr, "stub: VERIF_STUB_DIR not set")
		os.Exit(9)
	}
	if err := os.WriteFile(filepath.Join(dir, "argv"), []byte(strings.Join(os.Args, "\x00")), 0o644); err != nil {
		os.Exit(9)
	}
	if gate := os.Getenv("VERIF_STUB_GATE"); gate != "" {
		// a wrapped program that does something else first (kubectl contacts
		// its server) and reads its file arguments only later: wait until the
		// simulation opens the gate
		for k := 0; k < 4000; k++ {
			if _, err := os.Stat(gate); err == nil {
				break
			}
			time.Sleep(5 * time.Millisecond)
		}
	}
	for i, a := range os.Args {
		if fi, err := os.Stat(a); err == nil && fi.Mode().IsRegular() {
			if b, err := os.ReadFile(a); err == nil {
				_ = os.WriteFile(filepath.Join(dir, fmt.Sprintf("file%d", i)), b, 0o644)
			}
		}
	}
	fmt.Println("stub ran")
	_ = os.WriteFile(filepath.Join(dir, "done"), []byte("1"), 0o644)
}
