// verif is the driver of the deterministic-simulation checks for gopatchy/bkl.
//
//	verif check <ID> [--tier quick|thorough]
//	verif replay <file>
//	verif selftest
//
// Exit status: 0 the property held on everything explored; 1 a violation was
// found (a line "VIOLATION property=<id> replay=<path>" is printed); 2 the
// machinery itself failed (never a verdict).
package main

import (
	"errors"
	"fmt"
	"os"
	"os/signal"
	"path/filepath"
	"runtime"
	"runtime/pprof"
	"strconv"
	"syscall"
	"time"

	"verif/internal/build"
	"verif/internal/checks"
	"verif/internal/harness"
	"verif/internal/libsim"
)

func usage() {
	fmt.Fprintln(os.Stderr, "usage: verif check <ID> [--tier quick|thorough] | verif replay <file> | verif selftest")
	os.Exit(2)
}

func envInt(name string, def int64) int64 {
	if s := os.Getenv(name); s != "" {
		if n, err := strconv.ParseInt(s, 10, 64); err == nil {
			return n
		}
	}
	return def
}

func dirs() (string, string) {
	verifDir := os.Getenv("VERIF_DIR")
	if verifDir == "" {
		verifDir, _ = os.Getwd()
	}
	verifDir, _ = filepath.Abs(verifDir)
	repoDir := os.Getenv("VERIF_REPO")
	if repoDir == "" {
		repoDir = "/repo"
	}
	return verifDir, repoDir
}

func main() {
	if len(os.Args) < 2 {
		usage()
	}
	if pf := os.Getenv("VERIF_CPUPROFILE"); pf != "" {
		f, err := os.Create(pf)
		if err == nil {
			_ = pprof.StartCPUProfile(f)
			defer pprof.StopCPUProfile()
		}
	}
	switch os.Args[1] {
	case "check":
		if len(os.Args) < 3 {
			usage()
		}
		tier := os.Getenv("VERIF_TIER")
		for i := 3; i < len(os.Args); i++ {
			if os.Args[i] == "--tier" && i+1 < len(os.Args) {
				tier = os.Args[i+1]
				i++
			}
		}
		if tier != "thorough" {
			tier = "quick"
		}
		code := runCheck(os.Args[2], tier)
		pprof.StopCPUProfile()
		os.Exit(code)
	case "replay":
		if len(os.Args) < 3 {
			usage()
		}
		os.Exit(runReplay(os.Args[2]))
	case "selftest":
		os.Exit(runSelftest())
	case "gen":
		// debugging aid: print the case a check generates for a run index
		if len(os.Args) < 4 {
			usage()
		}
		run, _ := strconv.ParseInt(os.Args[3], 10, 64)
		fmt.Println(checks.GenCase(os.Args[2], envInt("VERIF_SEED", 1), run))
	default:
		usage()
	}
}

func infraExit(err error) int {
	fmt.Fprintf(os.Stderr, "verif: %v\n", err)
	return 2
}

func isInfra(err error) bool {
	var a *build.InfraError
	var b *libsim.InfraError
	return errors.As(err, &a) || errors.As(err, &b)
}

func runCheck(id, tier string) int {
	spec, ok := checks.Registry[id]
	if !ok {
		fmt.Fprintf(os.Stderr, "verif: no check for %s\n", id)
		return 2
	}
	verifDir, repoDir := dirs()
	seed := envInt("VERIF_SEED", 1)
	workers := int(envInt("VERIF_WORKERS", int64(runtime.NumCPU())))
	if workers < 1 {
		workers = 1
	}
	start := time.Now()
	ctx := &harness.Ctx{Prop: id, Tier: tier, Seed: seed, VerifDir: verifDir, RepoDir: repoDir, Workers: workers, Start: start}
	ctx.Ev = harness.NewEvidence(id, tier, seed)
	limit := time.Duration(envInt("VERIF_WALL_LIMIT_S", map[string]int64{"quick": 600, "thorough": 5400}[tier])) * time.Second
	ctx.Deadline = start.Add(limit)
	known, err := harness.LoadFindings(verifDir)
	if err != nil {
		return infraExit(err)
	}
	ctx.Known = known
	fmt.Printf("verif: property=%s tier=%s seed=%d workers=%d\n", id, tier, seed, workers)
	tree, err := build.Make(verifDir, repoDir, spec.Want)
	if err != nil {
		return infraExit(err)
	}
	defer tree.Close()
	sigc := make(chan os.Signal, 1)
	signal.Notify(sigc, syscall.SIGINT, syscall.SIGTERM, syscall.SIGHUP)
	go func() {
		<-sigc
		tree.Close()
		os.Exit(2)
	}()
	fmt.Printf("verif: built scratch world in %.1fs (instrumented=%v)\n", tree.BuildSeconds, tree.Instrumented)
	if tree.InstError != "" {
		fmt.Printf("verif: instrumentation unavailable, falling back to the stock tree: %s\n", tree.InstError)
	}
	env := &checks.Env{Ctx: ctx, Tree: tree}
	if spec.Want.InstCLIs && tree.Instrumented {
		if err := checks.Transparency(env); err != nil {
			tree.Close()
			return infraExit(err)
		}
	}
	viol, err := spec.Run(env)
	wall := time.Since(start).Seconds()
	if lerr := env.FlushLog(); lerr != nil {
		return infraExit(lerr)
	}
	if err != nil {
		tree.Close()
		return infraExit(err)
	}
	evDir := filepath.Join(verifDir, "evidence")
	if d := os.Getenv("VERIF_EVIDENCE_DIR"); d != "" {
		evDir = d
	}
	if werr := ctx.Ev.Write(evDir, wall, viol); werr != nil {
		tree.Close()
		return infraExit(werr)
	}
	fmt.Printf("verif: property=%s evaluations=%d violations=%d wall=%.1fs\n", id, ctx.Ev.Evals(), viol, wall)
	if viol > 0 {
		tree.Close()
		return 1
	}
	return 0
}

func runReplay(path string) int {
	verifDir, repoDir := dirs()
	code, err := checks.Replay(verifDir, repoDir, path)
	if err != nil {
		return infraExit(err)
	}
	return code
}

func runSelftest() int {
	verifDir, repoDir := dirs()
	if err := checks.Selftest(verifDir, repoDir); err != nil {
		fmt.Fprintf(os.Stderr, "selftest: %v\n", err)
		return 2
	}
	return 0
}
