module worker

go 1.24.0

require (
	github.com/gopatchy/bkl v0.0.0
	simrt v0.0.0
	wire v0.0.0
)

require (
	github.com/pelletier/go-toml/v2 v2.2.3 // indirect
	golang.org/x/exp v0.0.0-20250210185358-939b2ce775ac // indirect
	gopkg.in/yaml.v3 v3.0.1 // indirect
)

replace github.com/gopatchy/bkl => /repo

replace simrt => ../simrt

replace wire => ../wire
