// libsimworker executes simulated runs against the bkl library through its
// public API only. It is compiled three times per check: against the
// instrumented scratch copy (seeded iteration order, step counter, cooperative
// tasks), against the stock copy, and against the stock copy with -race.
//
// Protocol: one JSON Request per line on stdin; for each, a line "BEGIN <run>"
// and then one JSON Result line on stdout.
package main

import (
	"bufio"
	"encoding/json"
	"errors"
	"fmt"
	"io"
	"log"
	"os"
	"reflect"
	"runtime/debug"
	"strconv"
	"sync"
	"syscall"

	"github.com/gopatchy/bkl"
	toml "github.com/pelletier/go-toml/v2"
	"simrt"
	"wire"
)

func main() {
	if s := os.Getenv("VERIF_WORKER_AS"); s != "" {
		if n, err := strconv.ParseUint(s, 10, 64); err == nil && n > 0 {
			_ = syscall.Setrlimit(syscall.RLIMIT_AS, &syscall.Rlimit{Cur: n, Max: n})
		}
	}
	debug.SetMaxStack(256 << 20)
	// the debug log is formatted for real and thrown away (io.Discard itself
	// would make the log package skip the formatting)
	log.SetOutput(logSink{})
	log.SetFlags(0)
	in := bufio.NewReaderSize(os.Stdin, 1<<20)
	out := bufio.NewWriterSize(os.Stdout, 1<<20)
	for {
		line, err := in.ReadBytes('\n')
		if len(line) > 0 {
			var req wire.Request
			if jerr := json.Unmarshal(line, &req); jerr != nil {
				fmt.Fprintf(os.Stderr, "worker: bad request: %v\n", jerr)
				os.Exit(3)
			}
			fmt.Fprintf(out, "BEGIN %d\n", req.Run)
			out.Flush()
			progress = nil
			if !req.Real {
				progress = out
			}
			res := execute(&req)
			js, jerr := json.Marshal(res)
			if jerr != nil {
				fmt.Fprintf(os.Stderr, "worker: marshal: %v\n", jerr)
				os.Exit(3)
			}
			out.Write(js)
			out.WriteByte('\n')
			out.Flush()
		}
		if err != nil {
			return
		}
	}
}

type logSink struct{}

func (logSink) Write(p []byte) (int, error) { return len(p), nil }

func execute(req *wire.Request) *wire.Result {
	res := &wire.Result{Run: req.Run, Tasks: make([][]wire.OpResult, len(req.Tasks))}
	if req.Cwd != "" {
		if err := os.Chdir(req.Cwd); err != nil {
			fmt.Fprintf(os.Stderr, "worker: chdir %s: %v\n", req.Cwd, err)
			os.Exit(3)
		}
	}
	saved := map[string]*string{}
	for k, v := range req.Env {
		if old, ok := os.LookupEnv(k); ok {
			o := old
			saved[k] = &o
		} else {
			saved[k] = nil
		}
		os.Setenv(k, v)
	}
	defer func() {
		for k, v := range saved {
			if v == nil {
				os.Unsetenv(k)
			} else {
				os.Setenv(k, *v)
			}
		}
	}()

	mode, err := simrt.ParseMode(req.Sched.Mode)
	if err != nil {
		fmt.Fprintf(os.Stderr, "worker: %v\n", err)
		os.Exit(3)
	}
	simrt.Install(simrt.Sched{Mode: mode, Seed: req.Sched.Seed, Coin: req.Sched.Coin, Rot: req.Sched.Rot}, req.Budget)
	defer simrt.Uninstall()

	switch {
	case req.Real:
		simrt.Uninstall()
		var wg sync.WaitGroup
		for i := range req.Tasks {
			wg.Add(1)
			go func(i int) {
				defer wg.Done()
				res.Tasks[i] = runTask(i, &req.Tasks[i])
			}(i)
		}
		wg.Wait()
	case req.Coop != nil:
		fns := make([]func(), len(req.Tasks))
		for i := range req.Tasks {
			i := i
			fns[i] = func() { res.Tasks[i] = runTask(i, &req.Tasks[i]) }
		}
		var replay []simrt.Switch
		for _, s := range req.Coop.Switches {
			replay = append(replay, simrt.Switch{At: s.At, To: s.To})
		}
		log, _ := simrt.RunTasks(req.Coop.Seed, req.Coop.Prob, replay, req.Coop.Replay, fns)
		for _, s := range log {
			res.Switches = append(res.Switches, wire.Switch{At: s.At, To: s.To})
		}
	default:
		for i := range req.Tasks {
			simrt.ResetTask()
			restore := setEnv(req.Tasks[i].Env)
			res.Tasks[i] = runTask(i, &req.Tasks[i])
			restore()
		}
	}
	p := simrt.Snapshot()
	res.Probes = wire.Probes{
		Ranges: p.Ranges, RangesMulti: p.RangesMulti, CreatedSeen: p.CreatedSeen, CreatedProduced: p.CreatedProduced,
		CreatedSkipped: p.CreatedSkipped, DeletedSkipped: p.DeletedSkipped, Switches: p.Switches, MaxSteps: p.MaxSteps,
		Steps: p.Steps, Sig: p.Sig, PerSite: p.PerSite,
	}
	res.Instrumented = p.Steps > 0
	return res
}

// setEnv applies a task's environment ("" unsets) and returns the undo.
func setEnv(env map[string]string) func() {
	saved := map[string]*string{}
	for k, v := range env {
		if old, ok := os.LookupEnv(k); ok {
			o := old
			saved[k] = &o
		} else {
			saved[k] = nil
		}
		if v == "" {
			os.Unsetenv(k)
		} else {
			os.Setenv(k, v)
		}
	}
	return func() {
		for k, v := range saved {
			if v == nil {
				os.Unsetenv(k)
			} else {
				os.Setenv(k, *v)
			}
		}
	}
}

type taskState struct {
	p    *bkl.Parser
	docs map[string]*bkl.Document
	// held keeps the byte slices returned by Output until the task ends, as a
	// caller that goes on using the library while holding earlier results
	// would; they are turned into strings only then
	held map[int][]byte
	cur  int
	// debug: SetDebug(true) right after New()
	debug bool
	// envUndo restores what Setenv ops changed, at the end of the task
	envUndo []func()
}

var progress *bufio.Writer

func runTask(ti int, spec *wire.TaskSpec) []wire.OpResult {
	out := make([]wire.OpResult, len(spec.Ops))
	ts := &taskState{docs: map[string]*bkl.Document{}, held: map[int][]byte{}, debug: spec.Debug}
	defer func() {
		for i := len(ts.envUndo) - 1; i >= 0; i-- {
			ts.envUndo[i]()
		}
		for i, b := range ts.held {
			s := string(b)
			out[i].Bytes = &s
		}
	}()
	dead := false
	for i := range spec.Ops {
		if dead {
			out[i] = wire.OpResult{Outcome: "skipped"}
			continue
		}
		if progress != nil {
			// which op is in flight, should this process die in it
			fmt.Fprintf(progress, "OP %d %d\n", ti, i)
			progress.Flush()
		}
		simrt.BeginCall()
		ts.cur = i
		out[i] = runOp(ts, &spec.Ops[i])
		if out[i].Outcome == "panic" || out[i].Outcome == "budget" {
			dead = true
		}
	}
	return out
}

// shareObject makes the value at key path `to` the same object as the one at
// key path `from` (both below map keys only).
func shareObject(root any, from, to []string) any {
	cur := root
	for _, k := range from {
		m, ok := cur.(map[string]any)
		if !ok {
			return root
		}
		cur, ok = m[k]
		if !ok {
			return root
		}
	}
	if len(to) == 0 {
		return root
	}
	parent := root
	for _, k := range to[:len(to)-1] {
		m, ok := parent.(map[string]any)
		if !ok {
			return root
		}
		parent, ok = m[k]
		if !ok {
			return root
		}
	}
	if m, ok := parent.(map[string]any); ok {
		m[to[len(to)-1]] = cur
	}
	return root
}

// realise turns the wire's descriptions of typed scalars into the values a
// decoder leaves in a tree (TOML has native dates and times): a caller that
// decoded a file itself hands such values to MergeDocument.
func realise(v any) any {
	switch x := v.(type) {
	case map[string]any:
		for k, e := range x {
			x[k] = realise(e)
		}
		return x
	case []any:
		for i, e := range x {
			x[i] = realise(e)
		}
		return x
	case wire.Opaque:
		switch x.Type {
		case "toml.LocalDate":
			var d toml.LocalDate
			if d.UnmarshalText([]byte(x.Repr)) == nil {
				return d
			}
		case "toml.LocalTime":
			var d toml.LocalTime
			if d.UnmarshalText([]byte(x.Repr)) == nil {
				return d
			}
		case "toml.LocalDateTime":
			var d toml.LocalDateTime
			if d.UnmarshalText([]byte(x.Repr)) == nil {
				return d
			}
		}
		fmt.Fprintf(os.Stderr, "worker: cannot realise %s %q\n", x.Type, x.Repr)
		os.Exit(3)
	}
	return v
}

type faultWriter struct {
	kind  string
	k     int
	buf   []byte
	fired bool
}

var errInjected = errors.New("injected write error")

func (w *faultWriter) Write(p []byte) (int, error) {
	switch w.kind {
	case "":
		w.buf = append(w.buf, p...)
		return len(p), nil
	case "eagain_once", "eintr_once":
		// a transient condition: the write is cut short once (some bytes are
		// taken), every later write succeeds
		if w.fired || len(w.buf)+len(p) <= w.k {
			w.buf = append(w.buf, p...)
			return len(p), nil
		}
		w.fired = true
		room := w.k - len(w.buf)
		if room < 0 {
			room = 0
		}
		w.buf = append(w.buf, p[:room]...)
		if w.kind == "eintr_once" {
			return room, syscall.EINTR
		}
		return room, syscall.EAGAIN
	default:
		room := w.k - len(w.buf)
		if room < 0 {
			room = 0
		}
		if len(p) <= room && w.kind != "fail_always" {
			w.buf = append(w.buf, p...)
			return len(p), nil
		}
		if room > len(p) {
			room = len(p)
		}
		w.buf = append(w.buf, p[:room]...)
		if w.kind == "short" {
			return room, io.ErrShortWrite
		}
		return room, errInjected
	}
}

func runOp(ts *taskState, op *wire.Op) (r wire.OpResult) {
	defer func() {
		if rec := recover(); rec != nil {
			if b, ok := rec.(simrt.BudgetExceeded); ok {
				r = wire.OpResult{Outcome: "budget", Err: b.Error()}
				return
			}
			r = wire.OpResult{Outcome: "panic", Err: fmt.Sprint(rec)}
		}
	}()
	if ts.p == nil {
		p, err := bkl.New()
		if err != nil {
			return wire.OpResult{Outcome: "err", Err: "New: " + err.Error()}
		}
		if ts.debug {
			p.SetDebug(true)
		}
		ts.p = p
	}
	fail := func(err error) wire.OpResult {
		return wire.OpResult{Outcome: "err", Err: err.Error()}
	}
	r = wire.OpResult{Outcome: "ok"}
	switch op.Op {
	case "Setenv":
		// the process environment changes between two calls (Path = name,
		// Format = value, "" unsets); sequential execution only
		ts.envUndo = append(ts.envUndo, setEnv(map[string]string{op.Path: op.Format}))
	case "New":
		// (the parser was created above, before anything else happens)
	case "Chdir":
		// the process changes its working directory between two calls
		if err := os.Chdir(op.Path); err != nil {
			return fail(err)
		}
	case "SetRoot":
		if err := ts.p.SetRoot(op.Path); err != nil {
			return fail(err)
		}
	case "MergeDocument":
		var data any
		if op.Data != nil {
			data = realise(op.Data.V)
		}
		for _, pr := range op.Share {
			data = shareObject(data, pr[0], pr[1])
		}
		doc := bkl.NewDocumentWithData(op.ID, data)
		for _, pid := range op.Parents {
			pd, ok := ts.docs[pid]
			if !ok {
				fmt.Fprintf(os.Stderr, "worker: unknown parent %q\n", pid)
				os.Exit(3)
			}
			doc.AddParents(pd)
		}
		ts.docs[op.ID] = doc
		if err := ts.p.MergeDocument(doc); err != nil {
			r = fail(err)
		}
	case "MergeFile":
		if err := ts.p.MergeFile(op.Path); err != nil {
			r = fail(err)
		}
	case "MergeFileLayers":
		if err := ts.p.MergeFileLayers(op.Path); err != nil {
			r = fail(err)
		}
	case "Documents":
		r.Docs, r.Aliased = snapshot(ts.p.Documents())
		r.HasDocs = true
		return r
	case "Output":
		b, err := ts.p.Output(op.Format)
		if err != nil {
			r = fail(err)
		} else {
			ts.held[ts.cur] = b
		}
	case "OutputDocuments":
		outs, err := ts.p.OutputDocuments()
		if err != nil {
			r = fail(err)
		} else {
			r.HasOuts = true
			for _, o := range outs {
				r.Outs = append(r.Outs, wire.Tree{V: wire.Clone(o)})
			}
		}
	case "OutputToWriter":
		w := &faultWriter{}
		if op.Writer != nil {
			w.kind, w.k = op.Writer.Kind, op.Writer.K
		}
		err := ts.p.OutputToWriter(w, op.Format)
		s := string(w.buf)
		if err != nil {
			r = fail(err)
		}
		r.Bytes = &s
		r.Written = len(w.buf)
	case "OutputToFile":
		err := ts.p.OutputToFile(op.Path, op.Format)
		if err != nil {
			r = fail(err)
		}
		if fi, serr := os.Stat(op.Path); serr == nil && fi.Mode().IsRegular() && fi.Size() < 16<<20 {
			if b, rerr := os.ReadFile(op.Path); rerr == nil {
				s := string(b)
				r.Bytes = &s
			}
		}
	default:
		fmt.Fprintf(os.Stderr, "worker: unknown op %q\n", op.Op)
		os.Exit(3)
	}
	if op.Snap {
		r.Docs, r.Aliased = snapshot(ts.p.Documents())
		r.HasDocs = true
	}
	return r
}

func snapshot(docs []*bkl.Document) ([]wire.DocSnap, bool) {
	out := make([]wire.DocSnap, 0, len(docs))
	owner := map[uintptr]int{}
	aliased := false
	for i, d := range docs {
		ds := wire.DocSnap{ID: d.ID, Parents: []string{}, Data: wire.Tree{V: wire.Clone(d.Data)}}
		for _, p := range d.Parents {
			ds.Parents = append(ds.Parents, p.ID)
		}
		out = append(out, ds)
		walkPtr(d.Data, func(p uintptr) {
			if o, ok := owner[p]; ok && o != i {
				aliased = true
			}
			owner[p] = i
		}, 0)
	}
	return out, aliased
}

func walkPtr(v any, f func(uintptr), depth int) {
	if depth > 200 {
		return
	}
	switch x := v.(type) {
	case map[string]any:
		if len(x) > 0 {
			f(reflect.ValueOf(x).Pointer())
		}
		for _, e := range x {
			walkPtr(e, f, depth+1)
		}
	case []any:
		if len(x) > 0 {
			f(reflect.ValueOf(x).Pointer())
		}
		for _, e := range x {
			walkPtr(e, f, depth+1)
		}
	}
}
