module verif

go 1.24.0

require (
	golang.org/x/tools v0.29.0
	wire v0.0.0
)

require (
	golang.org/x/mod v0.22.0 // indirect
	golang.org/x/sync v0.10.0 // indirect
)

replace wire => ./wire

require gopkg.in/yaml.v3 v3.0.1

require github.com/pelletier/go-toml/v2 v2.2.3
