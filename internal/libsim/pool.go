// Package libsim is the in-process engine: a pool of worker processes, each
// linking the library under test, executing simulated runs on request.
package libsim

import (
	"bufio"
	"bytes"
	"encoding/json"
	"errors"
	"fmt"
	"io"
	"os"
	"os/exec"
	"path/filepath"
	"strings"
	"sync"
	"sync/atomic"
	"syscall"
	"time"

	"wire"
)

// Pool is a set of worker processes.
type Pool struct {
	bin     string
	env     []string
	idle    chan *worker
	n       int
	closed  atomic.Bool
	Crashes atomic.Int64
	Execs   atomic.Int64
	// Watchdog is the wall-clock limit for one request; exceeding it is an
	// infrastructure condition (the step budget is the real "hang" detector).
	Watchdog time.Duration
	mu       sync.Mutex
	all      []*worker
}

type worker struct {
	cmd    *exec.Cmd
	stdin  io.WriteCloser
	stdout *bufio.Reader
	stderr *ringBuf
}

type ringBuf struct {
	mu sync.Mutex
	b  []byte
}

func (r *ringBuf) Write(p []byte) (int, error) {
	r.mu.Lock()
	defer r.mu.Unlock()
	r.b = append(r.b, p...)
	if len(r.b) > 8192 {
		// keep head and tail: a Go crash report starts with the reason
		head := append([]byte{}, r.b[:2048]...)
		tail := r.b[len(r.b)-4096:]
		r.b = append(append(head, []byte("\n...\n")...), tail...)
	}
	return len(p), nil
}

func (r *ringBuf) String() string {
	r.mu.Lock()
	defer r.mu.Unlock()
	return string(r.b)
}

// NewPool creates a pool of n workers running bin. asLimit (bytes, 0 = none)
// becomes the workers' RLIMIT_AS. extraEnv entries are KEY=VALUE.
func NewPool(bin string, n int, asLimit uint64, extraEnv ...string) *Pool {
	p := &Pool{bin: bin, n: n, idle: make(chan *worker, n), Watchdog: watchdogFromEnv()}
	p.env = []string{"PATH=/usr/bin:/bin", "HOME=/nonexistent", "LANG=C", "GOTRACEBACK=single"}
	if asLimit > 0 {
		p.env = append(p.env, fmt.Sprintf("VERIF_WORKER_AS=%d", asLimit))
	}
	p.env = append(p.env, extraEnv...)
	for i := 0; i < n; i++ {
		p.idle <- nil // lazily spawned
	}
	return p
}

func (p *Pool) spawn() (*worker, error) {
	cmd := exec.Command(p.bin)
	cmd.Env = p.env
	cmd.Dir = "/"
	stdin, err := cmd.StdinPipe()
	if err != nil {
		return nil, err
	}
	stdout, err := cmd.StdoutPipe()
	if err != nil {
		return nil, err
	}
	w := &worker{cmd: cmd, stdin: stdin, stdout: bufio.NewReaderSize(stdout, 1<<20), stderr: &ringBuf{}}
	cmd.Stderr = w.stderr
	if err := cmd.Start(); err != nil {
		return nil, err
	}
	p.mu.Lock()
	p.all = append(p.all, w)
	p.mu.Unlock()
	return w, nil
}

func (w *worker) kill() {
	if w == nil || w.cmd == nil || w.cmd.Process == nil {
		return
	}
	w.stdin.Close()
	_ = w.cmd.Process.Kill()
	_ = w.cmd.Wait()
}

// InfraError is returned when the engine itself failed.
type InfraError struct{ Msg string }

func (e *InfraError) Error() string { return "infrastructure: " + e.Msg }

// IsWatchdog reports whether err is the wall-clock watchdog of Exec.
func IsWatchdog(err error) bool {
	var ie *InfraError
	return errors.As(err, &ie) && strings.HasPrefix(ie.Msg, "worker watchdog")
}

// Exec runs one request. A worker that dies while executing it yields a
// Result with Crash=true (the run that was in flight is known from the BEGIN
// line); a fresh worker takes over.
func (p *Pool) Exec(req *wire.Request) (*wire.Result, error) {
	w := <-p.idle
	var err error
	if w == nil {
		w, err = p.spawn()
		if err != nil {
			p.idle <- nil
			return nil, &InfraError{"spawn worker: " + err.Error()}
		}
	}
	p.Execs.Add(1)
	js, err := json.Marshal(req)
	if err != nil {
		p.idle <- w
		return nil, &InfraError{"marshal request: " + err.Error()}
	}
	type answer struct {
		res    *wire.Result
		err    error
		began  bool
		ct, co int
	}
	ch := make(chan answer, 1)
	go func() {
		if _, err := w.stdin.Write(append(js, '\n')); err != nil {
			ch <- answer{nil, err, false, -1, -1}
			return
		}
		line, err := w.stdout.ReadString('\n')
		if err != nil {
			ch <- answer{nil, err, false, -1, -1}
			return
		}
		if strings.TrimSpace(line) != fmt.Sprintf("BEGIN %d", req.Run) {
			ch <- answer{nil, fmt.Errorf("protocol: got %q", line), false, -1, -1}
			return
		}
		ct, co := -1, -1
		for {
			body, err := w.stdout.ReadBytes('\n')
			if err != nil {
				ch <- answer{nil, err, true, ct, co}
				return
			}
			if bytes.HasPrefix(body, []byte("OP ")) {
				if _, err := fmt.Sscanf(string(body), "OP %d %d", &ct, &co); err != nil {
					ch <- answer{nil, fmt.Errorf("protocol: %q", body), true, ct, co}
					return
				}
				continue
			}
			var res wire.Result
			dec := json.NewDecoder(bytes.NewReader(body))
			if err := dec.Decode(&res); err != nil {
				ch <- answer{nil, fmt.Errorf("protocol: %v", err), true, ct, co}
				return
			}
			ch <- answer{&res, nil, true, ct, co}
			return
		}
	}()
	var a answer
	t0 := time.Now()
	defer func() {
		if d := time.Since(t0); d > 2*time.Second && os.Getenv("VERIF_DEBUG_SLOW") != "" {
			fmt.Fprintf(os.Stderr, "SLOW %.1fs run=%d req=%s\n", d.Seconds(), req.Run, string(js)[:min(len(js), 1500)])
		}
	}()
	select {
	case a = <-ch:
	case <-time.After(p.Watchdog):
		// keep the request for a post-mortem (the goroutine dump of the
		// worker goes to its stderr on SIGQUIT)
		_ = w.cmd.Process.Signal(syscall.SIGQUIT)
		time.Sleep(300 * time.Millisecond)
		if dir := os.Getenv("VERIF_DIR"); dir != "" {
			_ = os.MkdirAll(filepath.Join(dir, "out", "infra"), 0o755)
			_ = os.WriteFile(filepath.Join(dir, "out", "infra", fmt.Sprintf("watchdog-run%d.json", req.Run)), js, 0o644)
			_ = os.WriteFile(filepath.Join(dir, "out", "infra", fmt.Sprintf("watchdog-run%d.stderr", req.Run)), []byte(w.stderr.String()), 0o644)
		}
		w.kill()
		p.idle <- nil
		return nil, &InfraError{fmt.Sprintf("worker watchdog (%v) on run %d; stderr: %s", p.Watchdog, req.Run, w.stderr.String())}
	}
	if a.err != nil {
		w.kill()
		p.idle <- nil
		stderr := w.stderr.String()
		if strings.HasPrefix(a.err.Error(), "protocol:") || strings.Contains(stderr, "worker:") {
			return nil, &InfraError{fmt.Sprintf("worker: %v; stderr: %s", a.err, stderr)}
		}
		p.Crashes.Add(1)
		return &wire.Result{Run: req.Run, Crash: true, Stderr: stderr, CrashTask: a.ct, CrashOp: a.co}, nil
	}
	p.idle <- w
	return a.res, nil
}

// Close kills all workers.
func (p *Pool) Close() {
	if p.closed.Swap(true) {
		return
	}
	p.mu.Lock()
	defer p.mu.Unlock()
	for _, w := range p.all {
		w.kill()
	}
}

// CrashKind classifies a worker death from its stderr.
func CrashKind(stderr string) string {
	switch {
	case strings.Contains(stderr, "stack overflow") || strings.Contains(stderr, "goroutine stack exceeds"):
		return "stack-overflow"
	case strings.Contains(stderr, "out of memory") || strings.Contains(stderr, "cannot allocate memory"):
		return "out-of-memory"
	case strings.Contains(stderr, "WARNING: DATA RACE"):
		return "data-race"
	case strings.Contains(stderr, "fatal error:"):
		return "fatal"
	case strings.Contains(stderr, "panic:"):
		return "panic"
	}
	return "died"
}

var _ = os.Getpid

func watchdogFromEnv() time.Duration {
	if v := os.Getenv("VERIF_WORKER_WATCHDOG_S"); v != "" {
		if d, err := time.ParseDuration(v + "s"); err == nil && d > 0 {
			return d
		}
	}
	return 300 * time.Second
}
