// Package procsim is the process-level engine: it materialises a simulated
// disk ("world") from a JSON value, runs one of the bkl tools in it with a
// scrubbed environment under resource limits, optionally under strace for
// syscall fault injection and open-file monitoring, and captures the outcome.
package procsim

import (
	"bytes"
	"encoding/base64"
	"encoding/json"
	"fmt"
	"os"
	"os/exec"
	"path/filepath"
	"regexp"
	"sort"
	"strconv"
	"strings"
	"sync"
	"sync/atomic"
	"syscall"
	"time"
	"unicode/utf8"

	"verif/internal/gen"
	"wire"
)

// File is one file of a world: either documents (serialised by extension at
// materialisation time) or exact bytes.
type File struct {
	Path string      `json:"path"`
	Docs []wire.Tree `json:"docs,omitempty"`
	Raw  *string     `json:"raw,omitempty"`
	// EscDollar: the documents are serialised with every "$" spelled as an
	// escape sequence of the format (same documents, no "$" in the bytes)
	EscDollar bool `json:"escaped_dollars,omitempty"`
	// CRLF: lines end in "\r\n" (a file written on another platform)
	CRLF bool `json:"crlf_line_endings,omitempty"`
	// Fifo: a named pipe instead of a regular file; the content is fed to
	// every reader that opens it while an invocation runs (Invocation.Fifos)
	Fifo bool `json:"named_pipe,omitempty"`
}

// fileJSON is File on the wire: content that is not valid UTF-8 (torn
// multi-byte characters, other encodings, random bytes) travels as base64 so
// that a replay file reproduces the very bytes.
type fileJSON struct {
	Path      string      `json:"path"`
	Docs      []wire.Tree `json:"docs,omitempty"`
	Raw       *string     `json:"raw,omitempty"`
	RawB64    *string     `json:"raw_base64,omitempty"`
	EscDollar bool        `json:"escaped_dollars,omitempty"`
	CRLF      bool        `json:"crlf_line_endings,omitempty"`
	Fifo      bool        `json:"named_pipe,omitempty"`
}

func (f File) MarshalJSON() ([]byte, error) {
	j := fileJSON{Path: f.Path, Docs: f.Docs, Raw: f.Raw, EscDollar: f.EscDollar, CRLF: f.CRLF, Fifo: f.Fifo}
	if f.Raw != nil && !utf8.ValidString(*f.Raw) {
		b := base64.StdEncoding.EncodeToString([]byte(*f.Raw))
		j.Raw, j.RawB64 = nil, &b
	}
	return json.Marshal(j)
}

func (f *File) UnmarshalJSON(data []byte) error {
	var j fileJSON
	if err := json.Unmarshal(data, &j); err != nil {
		return err
	}
	*f = File{Path: j.Path, Docs: j.Docs, Raw: j.Raw, EscDollar: j.EscDollar, CRLF: j.CRLF, Fifo: j.Fifo}
	if j.RawB64 != nil {
		b, err := base64.StdEncoding.DecodeString(*j.RawB64)
		if err != nil {
			return err
		}
		s := string(b)
		f.Raw = &s
	}
	return nil
}

// Link is a symlink.
type Link struct {
	Path   string `json:"path"`
	Target string `json:"target"`
}

// World is a simulated disk.
type World struct {
	Dirs  []string `json:"dirs,omitempty"`
	Files []File   `json:"files,omitempty"`
	Links []Link   `json:"symlinks,omitempty"`
}

// Ext returns the extension of a path without the dot.
func Ext(p string) string { return strings.TrimPrefix(filepath.Ext(p), ".") }

// Bytes returns the content of a file.
func (f *File) Bytes() (string, bool) {
	if f.Raw != nil {
		return *f.Raw, true
	}
	docs := make([]any, len(f.Docs))
	for i, d := range f.Docs {
		docs[i] = d.V
	}
	s, ok := gen.StreamText(Ext(f.Path), docs)
	if ok && f.EscDollar {
		s = gen.EscapeDollars(Ext(f.Path), s)
	}
	if ok && f.CRLF {
		// (the serialisers quote every string, so a raw "\n" is always a line break)
		s = strings.ReplaceAll(s, "\n", "\r\n")
	}
	return s, ok
}

// Clone deep-copies a world.
func (w *World) Clone() *World {
	n := &World{Dirs: append([]string{}, w.Dirs...), Links: append([]Link{}, w.Links...)}
	for _, f := range w.Files {
		nf := File{Path: f.Path, EscDollar: f.EscDollar, CRLF: f.CRLF, Fifo: f.Fifo}
		if f.Raw != nil {
			s := *f.Raw
			nf.Raw = &s
		}
		for _, d := range f.Docs {
			nf.Docs = append(nf.Docs, wire.Tree{V: wire.Clone(d.V)})
		}
		n.Files = append(n.Files, nf)
	}
	return n
}

// File returns the file with the given path.
func (w *World) File(path string) *File {
	for i := range w.Files {
		if w.Files[i].Path == path {
			return &w.Files[i]
		}
	}
	return nil
}

// Materialise creates the world under root (which must not exist or be empty).
// Real turns the placeholder for a byte that is not valid UTF-8 into that
// byte: file names are byte strings (a directory created under a Latin-1
// locale), but case descriptions and replay files are JSON. "@E9@" stands for
// the single byte 0xE9.
func Real(p string) string { return strings.ReplaceAll(p, "@E9@", "\xe9") }

func (w *World) Materialise(root string) error {
	if err := os.MkdirAll(root, 0o755); err != nil {
		return err
	}
	for _, d := range w.Dirs {
		if err := os.MkdirAll(filepath.Join(root, Real(d)), 0o755); err != nil {
			return err
		}
	}
	for i := range w.Files {
		f := &w.Files[i]
		b, ok := f.Bytes()
		if !ok {
			return fmt.Errorf("world: %s cannot be represented in its format", f.Path)
		}
		p := filepath.Join(root, Real(f.Path))
		if err := os.MkdirAll(filepath.Dir(p), 0o755); err != nil {
			return err
		}
		if f.Fifo {
			_ = os.Remove(p)
			if err := syscall.Mkfifo(p, 0o644); err != nil {
				return err
			}
			continue
		}
		if err := os.WriteFile(p, []byte(b), 0o644); err != nil {
			return err
		}
	}
	for _, l := range w.Links {
		p := filepath.Join(root, Real(l.Path))
		if err := os.MkdirAll(filepath.Dir(p), 0o755); err != nil {
			return err
		}
		if err := os.Symlink(Real(l.Target), p); err != nil {
			return err
		}
	}
	return nil
}

// Inject is one syscall fault (strace -e inject).
type Inject struct {
	Syscall string `json:"syscall"` // openat | read | write
	Path    string `json:"path"`    // world-relative path the fault is keyed to (strace -P)
	Errno   string `json:"errno"`   // EIO | EACCES | EMFILE | ENOSPC
	When    string `json:"when,omitempty"`
}

// FifoFeed is the content served on one named pipe.
type FifoFeed struct {
	Path    string `json:"path"` // world-relative
	Content string `json:"content"`
}

// Invocation is one run of a tool in a world.
type Invocation struct {
	Binary string            `json:"binary"` // absolute path (not part of replay files; set by the check)
	Kind   string            `json:"kind"`   // stock | inst
	Argv0  string            `json:"argv0,omitempty"`
	Args   []string          `json:"args"`
	Cwd    string            `json:"cwd"` // world-relative
	Env    map[string]string `json:"env,omitempty"`
	// RawEnv: further environment entries passed as they are (execve accepts
	// any strings: entries without "=", with an empty name, duplicates)
	RawEnv []string `json:"raw_env,omitempty"`
	Stdin  string   `json:"stdin,omitempty"`
	// StdinBursts delivers stdin through a pipe in several writes (sizes in
	// bytes, the rest in a last write) with a pause between them: a reader
	// sees short reads, as with a slow producer
	StdinBursts []int       `json:"stdin_bursts,omitempty"`
	Sched       *wire.Sched `json:"schedule,omitempty"`
	// Fifos: named pipes of the world and what a reader gets from them: a
	// feeder serves every open for reading while the invocation runs
	Fifos []FifoFeed `json:"named_pipes,omitempty"`
	// StdoutTo: "" = pipe, otherwise an absolute path opened for writing (/dev/full)
	StdoutTo string   `json:"stdout_to,omitempty"`
	Injects  []Inject `json:"inject,omitempty"`
	Trace    bool     `json:"trace_opens,omitempty"`
	// limits
	CPUSeconds int   `json:"cpu_seconds,omitempty"`
	ASBytes    int64 `json:"as_bytes,omitempty"`
	StepBudget int64 `json:"step_budget,omitempty"`
	// FSize: RLIMIT_FSIZE of the tool (bytes; 0 = unlimited): a write that
	// crosses it is accepted in part (a short write), the next one fails.
	// Applies to every regular file the tool writes, so only for stock
	// binaries (the instrumented ones write a statistics file)
	FSize int64 `json:"file_size_limit,omitempty"`
}

type invJSON Invocation

// (stdin that is not valid UTF-8 travels as base64, like file content)
func (i Invocation) MarshalJSON() ([]byte, error) {
	a := struct {
		invJSON
		StdinB64 *string `json:"stdin_base64,omitempty"`
	}{invJSON: invJSON(i)}
	if !utf8.ValidString(i.Stdin) {
		b := base64.StdEncoding.EncodeToString([]byte(i.Stdin))
		a.StdinB64, a.Stdin = &b, ""
	}
	return json.Marshal(a)
}

func (i *Invocation) UnmarshalJSON(data []byte) error {
	var a struct {
		invJSON
		StdinB64 *string `json:"stdin_base64,omitempty"`
	}
	if err := json.Unmarshal(data, &a); err != nil {
		return err
	}
	*i = Invocation(a.invJSON)
	if a.StdinB64 != nil {
		b, err := base64.StdEncoding.DecodeString(*a.StdinB64)
		if err != nil {
			return err
		}
		i.Stdin = string(b)
	}
	return nil
}

// Outcome is what a run produced.
type Outcome struct {
	Status   int    `json:"status"` // exit status, -1 if killed by a signal
	Signal   string `json:"signal,omitempty"`
	Stdout   string `json:"stdout"`
	Stderr   string `json:"stderr"`
	Crash    string `json:"crash,omitempty"` // crash signature found on stderr
	StepsOut bool   `json:"step_budget_exceeded,omitempty"`
	CPUOut   bool   `json:"cpu_limit_exceeded,omitempty"`
	// Blocked: every thread of the process group slept and no CPU time was
	// consumed for 10 s while nothing was left to wait for (stdin delivered
	// and closed, stdout/stderr drained): the simulator's "no runnable task
	// and no pending event" — a deadlock, e.g. a write into a full pipe that
	// nobody reads. The group is killed.
	Blocked    bool           `json:"blocked_forever,omitempty"`
	Steps      int64          `json:"steps,omitempty"`
	Sig        string         `json:"schedule_sig,omitempty"`
	Opened     []string       `json:"opened,omitempty"`    // resolved paths of successful opens (Trace)
	Attempted  []string       `json:"attempted,omitempty"` // paths of all open/stat attempts (Trace)
	Injected   int            `json:"injected,omitempty"`  // faults that fired
	InjectedBy map[string]int `json:"injected_by_syscall,omitempty"`
	WallMS     int64          `json:"-"`
}

var crashRE = regexp.MustCompile(`(?m)^(panic: |fatal error: |goroutine \d+ \[|runtime: |SIGSEGV|unexpected fault address|\[signal SIG)`)

// CrashSignature returns the first Go crash marker on stderr, or "".
func CrashSignature(stderr string) string {
	if m := crashRE.FindString(stderr); m != "" {
		if i := strings.Index(stderr, m); i >= 0 {
			end := strings.IndexByte(stderr[i:], '\n')
			if end < 0 {
				end = len(stderr) - i
			}
			if end > 200 {
				end = 200
			}
			return stderr[i : i+end]
		}
		return m
	}
	return ""
}

const defaultAS = int64(2) << 30

// Run executes an invocation in the world materialised at root.
func Run(root string, inv *Invocation) (*Outcome, error) {
	cpu := inv.CPUSeconds
	if cpu <= 0 {
		cpu = 10
	}
	as := inv.ASBytes
	if as <= 0 {
		as = defaultAS
	}
	cwd := filepath.Join(root, Real(inv.Cwd))
	env := []string{"PATH=" + filepath.Join(root, "bin") + ":/usr/bin:/bin", "HOME=" + root, "LANG=C", "TMPDIR=" + filepath.Join(root, "tmp"), "GOTRACEBACK=single"}
	keys := make([]string, 0, len(inv.Env))
	for k := range inv.Env {
		keys = append(keys, k)
	}
	sort.Strings(keys)
	for _, k := range keys {
		env = append(env, k+"="+inv.Env[k])
	}
	env = append(env, inv.RawEnv...)
	statsPath := ""
	if inv.Sched != nil && inv.Kind == "inst" {
		env = append(env, "VERIF_SIM_MODE="+inv.Sched.Mode, "VERIF_SIM_SEED="+strconv.FormatUint(inv.Sched.Seed, 10),
			"VERIF_SIM_COIN="+strconv.FormatFloat(inv.Sched.Coin, 'g', -1, 64), "VERIF_SIM_ROT="+strconv.Itoa(inv.Sched.Rot))
		if inv.StepBudget > 0 {
			env = append(env, "VERIF_SIM_STEP_BUDGET="+strconv.FormatInt(inv.StepBudget, 10))
		}
		f, err := os.CreateTemp(root, "stats-*")
		if err == nil {
			statsPath = f.Name()
			f.Close()
			env = append(env, "VERIF_SIM_STATS="+statsPath)
			defer os.Remove(statsPath)
		}
	}
	argv0 := inv.Argv0
	if argv0 == "" {
		argv0 = filepath.Base(inv.Binary)
	}
	// prlimit applies the limits, then execs the tool with the requested argv[0]
	limited := []string{"prlimit", "--cpu=" + strconv.Itoa(cpu), "--as=" + strconv.FormatInt(as, 10), "--nofile=256", "--core=0"}
	if inv.FSize > 0 {
		limited = append(limited, "--fsize="+strconv.FormatInt(inv.FSize, 10))
	}
	limited = append(limited, "--")
	var args []string
	straceLog := ""
	if len(inv.Injects) > 0 || inv.Trace {
		f, err := os.CreateTemp(root, "strace-*")
		if err != nil {
			return nil, err
		}
		straceLog = f.Name()
		f.Close()
		defer os.Remove(straceLog)
		args = []string{"strace", "-f", "-y", "-qq", "-s", "4096", "-o", straceLog}
		if inv.Trace {
			args = append(args, "-e", "trace=open,openat,openat2,stat,lstat,newfstatat,statx,readlink,readlinkat,access,faccessat,faccessat2,execve")
		} else {
			sys := map[string]bool{}
			for _, in := range inv.Injects {
				sys[in.Syscall] = true
			}
			var names []string
			for s := range sys {
				names = append(names, s)
			}
			sort.Strings(names)
			args = append(args, "-e", "trace="+strings.Join(names, ","))
		}
		for _, in := range inv.Injects {
			p := Real(in.Path)
			if !filepath.IsAbs(p) {
				p = filepath.Join(root, p)
			}
			spec := "inject=" + in.Syscall + ":error=" + in.Errno
			if in.When != "" {
				spec += ":when=" + in.When
			}
			args = append(args, "-P", p)
			if in.Syscall == "openat" {
				// os.Root opens component by component relative to a
				// directory descriptor: the name the kernel sees is the base name
				args = append(args, "-P", filepath.Base(p))
			}
			args = append(args, "-e", spec)
		}
		args = append(args, "--")
	}
	// `env -i` is not needed (cmd.Env is explicit); argv[0] is set through exec -a via sh only when it differs
	var cmd *exec.Cmd
	full := append(append([]string{}, args...), limited...)
	if argv0 != filepath.Base(inv.Binary) {
		// run through a link with the requested name
		link := filepath.Join(root, "bin", argv0)
		if _, err := os.Lstat(link); err != nil {
			_ = os.MkdirAll(filepath.Dir(link), 0o755)
			if err := os.Symlink(inv.Binary, link); err != nil {
				return nil, err
			}
		}
		full = append(full, link)
	} else {
		full = append(full, inv.Binary)
	}
	for _, a := range inv.Args {
		full = append(full, Real(a))
	}
	cmd = exec.Command(full[0], full[1:]...)
	cmd.Dir = cwd
	cmd.Env = env
	cmd.Stdin = strings.NewReader(inv.Stdin)
	var burstW *os.File
	if len(inv.StdinBursts) > 0 {
		pr, pw, err := os.Pipe()
		if err != nil {
			return nil, err
		}
		cmd.Stdin = pr
		burstW = pw
		defer pr.Close()
	}
	var stdout, stderr bytes.Buffer
	cmd.Stderr = &limitWriter{buf: &stderr, max: 1 << 20}
	if inv.StdoutTo != "" {
		f, err := os.OpenFile(inv.StdoutTo, os.O_WRONLY, 0)
		if err != nil {
			return nil, err
		}
		defer f.Close()
		cmd.Stdout = f
	} else {
		cmd.Stdout = &limitWriter{buf: &stdout, max: 64 << 20}
	}
	cmd.SysProcAttr = &syscall.SysProcAttr{Setpgid: true}
	t0 := time.Now()
	if err := cmd.Start(); err != nil {
		return nil, err
	}
	if burstW != nil {
		go func() {
			defer burstW.Close()
			rest := []byte(inv.Stdin)
			for _, n := range inv.StdinBursts {
				if n <= 0 || len(rest) == 0 {
					continue
				}
				if n > len(rest) {
					n = len(rest)
				}
				if _, err := burstW.Write(rest[:n]); err != nil {
					return
				}
				rest = rest[n:]
				time.Sleep(4 * time.Millisecond)
			}
			_, _ = burstW.Write(rest)
		}()
	}
	var stopFeed atomic.Bool
	var feedWG sync.WaitGroup
	for _, ff := range inv.Fifos {
		fp := filepath.Join(root, Real(ff.Path))
		feedWG.Add(1)
		go func(fp, content string) {
			defer feedWG.Done()
			for !stopFeed.Load() {
				// (a fault may have replaced the pipe by something else)
				if fi, err := os.Lstat(fp); err != nil || fi.Mode()&os.ModeNamedPipe == 0 {
					return
				}
				// blocks until some process opens the pipe for reading
				w, err := os.OpenFile(fp, os.O_WRONLY, 0)
				if err != nil {
					return
				}
				if !stopFeed.Load() {
					_, _ = w.WriteString(content)
				}
				w.Close()
				// the reader must see EOF before the pipe is opened again:
				// wait until nobody has it open for reading any more
				for k := 0; k < 5000 && !stopFeed.Load(); k++ {
					time.Sleep(time.Millisecond)
					nb, err := os.OpenFile(fp, os.O_WRONLY|syscall.O_NONBLOCK, 0)
					if err != nil {
						break // ENXIO: no reader left (or the pipe is gone)
					}
					nb.Close()
				}
			}
		}(fp, ff.Content)
	}
	defer func() {
		// release the feeders: a non-blocking reader lets a pending open
		// return. A feeder may enter its blocking open only after one such
		// reader has come and gone, so keep offering readers until all
		// feeders have left.
		stopFeed.Store(true)
		gone := make(chan struct{})
		go func() { feedWG.Wait(); close(gone) }()
		for {
			select {
			case <-gone:
				return
			default:
			}
			for _, ff := range inv.Fifos {
				if r, err := os.OpenFile(filepath.Join(root, Real(ff.Path)), os.O_RDONLY|syscall.O_NONBLOCK, 0); err == nil {
					time.Sleep(time.Millisecond)
					r.Close()
				}
			}
			time.Sleep(2 * time.Millisecond)
		}
	}()
	done := make(chan error, 1)
	go func() { done <- cmd.Wait() }()
	// wall-clock watchdog far above the CPU limit: only catches a process
	// that sleeps forever (bkl has no sleep); reported as infrastructure
	var werr error
	blocked := false
	deadline := time.After(time.Duration(cpu*6+60) * time.Second)
	tick := time.NewTicker(2 * time.Second)
	defer tick.Stop()
	lastCPU, idle := int64(-1), 0
wait:
	for {
		select {
		case werr = <-done:
			break wait
		case <-tick.C:
			ticks, sleeping := groupActivity(cmd.Process.Pid)
			if sleeping && lastCPU >= 0 && ticks-lastCPU <= 2 {
				idle++
			} else {
				idle = 0
			}
			lastCPU = ticks
			if idle >= 5 {
				_ = syscall.Kill(-cmd.Process.Pid, syscall.SIGKILL)
				werr = <-done
				blocked = true
				break wait
			}
		case <-deadline:
			_ = syscall.Kill(-cmd.Process.Pid, syscall.SIGKILL)
			<-done
			return nil, fmt.Errorf("procsim: wall-clock watchdog fired (cpu limit %ds) for %v", cpu, inv.Args)
		}
	}
	out := &Outcome{Stdout: stdout.String(), Stderr: stderr.String(), WallMS: time.Since(t0).Milliseconds()}
	if blocked {
		out.Blocked = true
		out.Status = -1
		werr = nil
	}
	if werr != nil {
		if ee, ok := werr.(*exec.ExitError); ok {
			ws := ee.Sys().(syscall.WaitStatus)
			if ws.Signaled() {
				out.Status = -1
				out.Signal = ws.Signal().String()
				if ws.Signal() == syscall.SIGXCPU || ws.Signal() == syscall.SIGKILL {
					out.CPUOut = true
				}
			} else {
				out.Status = ws.ExitStatus()
			}
		} else {
			return nil, werr
		}
	}
	out.Crash = CrashSignature(out.Stderr)
	if out.Status == 97 && strings.Contains(out.Stderr, "VERIF_SIM: step budget exceeded") {
		out.StepsOut = true
	}
	if strings.Contains(out.Stderr, "+++ killed by SIGXCPU") {
		out.CPUOut = true
	}
	if statsPath != "" {
		if b, err := os.ReadFile(statsPath); err == nil {
			for _, f := range strings.Fields(string(b)) {
				if strings.HasPrefix(f, "steps=") {
					out.Steps, _ = strconv.ParseInt(strings.TrimPrefix(f, "steps="), 10, 64)
				}
				if strings.HasPrefix(f, "sig=") {
					out.Sig = strings.TrimPrefix(f, "sig=")
				}
			}
		}
	}
	if straceLog != "" {
		if b, err := os.ReadFile(straceLog); err == nil {
			parseStrace(string(b), out)
		}
	}
	return out, nil
}

// groupActivity returns the CPU time (clock ticks, user + system) consumed so
// far by the live processes of a process group and whether every one of their
// threads is sleeping (state S) — nothing runnable, nothing in disk wait.
func groupActivity(pgid int) (int64, bool) {
	ents, err := os.ReadDir("/proc")
	if err != nil {
		return 0, false
	}
	var ticks int64
	sleeping, found := true, false
	for _, e := range ents {
		name := e.Name()
		if name[0] < '0' || name[0] > '9' {
			continue
		}
		st, ok := procStat("/proc/" + name + "/stat")
		if !ok || len(st) < 13 {
			continue
		}
		if g, _ := strconv.Atoi(st[2]); g != pgid {
			continue
		}
		found = true
		u, _ := strconv.ParseInt(st[11], 10, 64)
		k, _ := strconv.ParseInt(st[12], 10, 64)
		ticks += u + k
		if st[0] == "Z" {
			continue
		}
		tasks, _ := os.ReadDir("/proc/" + name + "/task")
		for _, t := range tasks {
			ts, ok := procStat("/proc/" + name + "/task/" + t.Name() + "/stat")
			if ok && ts[0] != "S" {
				sleeping = false
			}
		}
	}
	return ticks, sleeping && found
}

// procStat returns the fields of a /proc stat line after the command name
// (index 0 = state, 2 = pgrp, 11 = utime, 12 = stime).
func procStat(path string) ([]string, bool) {
	b, err := os.ReadFile(path)
	if err != nil {
		return nil, false
	}
	s := string(b)
	i := strings.LastIndexByte(s, ')')
	if i < 0 || i+2 > len(s) {
		return nil, false
	}
	return strings.Fields(s[i+2:]), true
}

type limitWriter struct {
	buf *bytes.Buffer
	max int
}

func (l *limitWriter) Write(p []byte) (int, error) {
	room := l.max - l.buf.Len()
	if room > 0 {
		if len(p) < room {
			room = len(p)
		}
		l.buf.Write(p[:room])
	}
	return len(p), nil
}

var (
	openOK   = regexp.MustCompile(`^\d+\s+(?:open|openat|openat2)\(.*\) = \d+<([^>]*)>`)
	injected = regexp.MustCompile(`\(INJECTED\)`)
	sysName  = regexp.MustCompile(`^\d+\s+(\w+)\(`)
	killedBy = regexp.MustCompile(`\+\+\+ killed by (\w+)`)
)

func parseStrace(log string, out *Outcome) {
	for _, line := range strings.Split(log, "\n") {
		if injected.MatchString(line) {
			out.Injected++
			if m := sysName.FindStringSubmatch(line); m != nil {
				if out.InjectedBy == nil {
					out.InjectedBy = map[string]int{}
				}
				out.InjectedBy[m[1]]++
			}
		}
		if m := openOK.FindStringSubmatch(line); m != nil {
			out.Opened = append(out.Opened, m[1])
		}
		if m := killedBy.FindStringSubmatch(line); m != nil && m[1] == "SIGXCPU" {
			out.CPUOut = true
		}
	}
	out.Attempted = attempted(log)
}

var attemptRE = regexp.MustCompile(`^\d+\s+(open|openat|openat2|stat|lstat|newfstatat|statx|readlink|readlinkat|access|faccessat|faccessat2)\((.*)$`)
var fdPath = regexp.MustCompile(`^(?:AT_FDCWD|\d+)<([^>]*)>, `)

// attempted extracts the path of every open/stat/readlink attempt, resolved
// against the directory fd when relative.
func attempted(log string) []string {
	var out []string
	for _, line := range strings.Split(log, "\n") {
		m := attemptRE.FindStringSubmatch(line)
		if m == nil {
			continue
		}
		rest := m[2]
		dir := ""
		if fm := fdPath.FindStringSubmatch(rest); fm != nil {
			dir = fm[1]
			rest = rest[len(fm[0]):]
		}
		if !strings.HasPrefix(rest, `"`) {
			continue
		}
		end := strings.Index(rest[1:], `"`)
		if end < 0 {
			continue
		}
		p := rest[1 : 1+end]
		if !filepath.IsAbs(p) && dir != "" {
			p = filepath.Join(dir, p)
		}
		out = append(out, filepath.Clean(p))
	}
	return out
}
