package procsim

import (
	"encoding/json"
	"testing"
)

func TestRawRoundTrip(t *testing.T) {
	raw := "\xff\xfea\x00"
	w := World{Files: []File{{Path: "a", Raw: &raw}}}
	inv := Invocation{Args: []string{"x"}, Stdin: "\xfe\xff\x00b", Cwd: "w"}
	js, _ := json.Marshal(struct {
		W World
		I Invocation
	}{w, inv})
	var back struct {
		W World
		I Invocation
	}
	if err := json.Unmarshal(js, &back); err != nil {
		t.Fatal(err)
	}
	if *back.W.Files[0].Raw != raw || back.I.Stdin != inv.Stdin || back.I.Cwd != "w" || back.I.Args[0] != "x" {
		t.Fatalf("round trip lost bytes: %q %q %s", *back.W.Files[0].Raw, back.I.Stdin, js)
	}
}
