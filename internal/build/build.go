// Package build makes the scratch world every check starts from: a copy of
// /repo's working tree ("stock"), an instrumented copy ("inst"), and the
// binaries built from both.
package build

import (
	"bytes"
	"fmt"
	"io"
	"io/fs"
	"os"
	"os/exec"
	"path/filepath"
	"strconv"
	"strings"
	"sync"
	"syscall"
	"time"

	"verif/internal/simgen"
)

// Tree is a built scratch world.
type Tree struct {
	Root         string // scratch root (removed by Close)
	Stock        string // copy of the working tree
	Inst         string // instrumented copy ("" if instrumentation failed)
	Bin          string // Bin/stock/<tool>, Bin/inst/<tool>, Bin/worker-inst, Bin/worker-stock, Bin/worker-race, Bin/stub
	Instrumented bool
	InstError    string
	Sites        *simgen.Result
	BuildSeconds float64
	VerifDir     string
	RepoDir      string
}

// Want selects what to build.
type Want struct {
	StockCLIs   bool
	InstCLIs    bool
	WorkerInst  bool
	WorkerStock bool
	WorkerRace  bool
	Stub        bool
}

// InfraError marks a failure of the machinery (exit 2), never a verdict.
type InfraError struct{ Msg string }

func (e *InfraError) Error() string { return "infrastructure: " + e.Msg }

func infra(format string, a ...any) error { return &InfraError{fmt.Sprintf(format, a...)} }

var Tools = []string{"bkl", "bklb", "bkld", "bkli", "bklr", "kubectl-bkl"}

func goEnv() []string {
	env := []string{}
	for _, e := range os.Environ() {
		if strings.HasPrefix(e, "GOFLAGS=") || strings.HasPrefix(e, "GOPROXY=") || strings.HasPrefix(e, "GOSUMDB=") || strings.HasPrefix(e, "GOTOOLCHAIN=") {
			continue
		}
		env = append(env, e)
	}
	return append(env, "GOFLAGS=-mod=mod", "GOPROXY=off", "CGO_ENABLED=0")
}

func run(dir string, env []string, name string, args ...string) (string, error) {
	cmd := exec.Command(name, args...)
	cmd.Dir = dir
	cmd.Env = env
	var out bytes.Buffer
	cmd.Stdout = &out
	cmd.Stderr = &out
	err := cmd.Run()
	return out.String(), err
}

func copyFile(src, dst string) error {
	in, err := os.Open(src)
	if err != nil {
		return err
	}
	defer in.Close()
	if err := os.MkdirAll(filepath.Dir(dst), 0o755); err != nil {
		return err
	}
	out, err := os.Create(dst)
	if err != nil {
		return err
	}
	if _, err := io.Copy(out, in); err != nil {
		out.Close()
		return err
	}
	return out.Close()
}

// copyTree copies the Go sources, go.mod/go.sum and (optionally) tests/.
func copyTree(repo, dst string, withTests bool) error {
	return filepath.WalkDir(repo, func(path string, d fs.DirEntry, err error) error {
		if err != nil {
			return err
		}
		rel, _ := filepath.Rel(repo, path)
		if d.IsDir() {
			switch rel {
			case ".git", "testdata", "docs", "krew":
				return filepath.SkipDir
			case "tests":
				if !withTests {
					return filepath.SkipDir
				}
			}
			return nil
		}
		inTests := strings.HasPrefix(rel, "tests"+string(filepath.Separator))
		if inTests {
			if d.Type()&fs.ModeSymlink != 0 {
				tgt, err := os.Readlink(path)
				if err != nil {
					return err
				}
				if err := os.MkdirAll(filepath.Dir(filepath.Join(dst, rel)), 0o755); err != nil {
					return err
				}
				return os.Symlink(tgt, filepath.Join(dst, rel))
			}
			return copyFile(path, filepath.Join(dst, rel))
		}
		if !d.Type().IsRegular() {
			return nil
		}
		base := filepath.Base(rel)
		if base == "go.mod" || base == "go.sum" || (strings.HasSuffix(base, ".go") && !strings.HasSuffix(base, "_test.go")) {
			return copyFile(path, filepath.Join(dst, rel))
		}
		return nil
	})
}

// ScratchBase picks where scratch worlds live.
func ScratchBase() string {
	if s := os.Getenv("VERIF_SCRATCH"); s != "" {
		return s
	}
	if fi, err := os.Stat("/dev/shm"); err == nil && fi.IsDir() {
		if f, err := os.CreateTemp("/dev/shm", "verif-probe-*"); err == nil {
			f.Close()
			os.Remove(f.Name())
			return "/dev/shm"
		}
	}
	return os.TempDir()
}

// reapStale removes scratch worlds left behind by checks that were killed
// (their owner process no longer exists).
func reapStale(base string) {
	dirs, _ := filepath.Glob(filepath.Join(base, "verif-world-*"))
	for _, d := range dirs {
		b, err := os.ReadFile(filepath.Join(d, ".pid"))
		if err != nil {
			if fi, serr := os.Stat(d); serr == nil && time.Since(fi.ModTime()) > 6*time.Hour {
				os.RemoveAll(d)
			}
			continue
		}
		pid, err := strconv.Atoi(strings.TrimSpace(string(b)))
		if err != nil || pid <= 0 {
			continue
		}
		if err := syscall.Kill(pid, 0); err == syscall.ESRCH {
			os.RemoveAll(d)
		}
	}
}

// Make builds a scratch world from repoDir's working tree.
func Make(verifDir, repoDir string, want Want) (*Tree, error) {
	t0 := time.Now()
	reapStale(ScratchBase())
	root, err := os.MkdirTemp(ScratchBase(), "verif-world-")
	if err != nil {
		return nil, infra("mktemp: %v", err)
	}
	_ = os.WriteFile(filepath.Join(root, ".pid"), []byte(strconv.Itoa(os.Getpid())), 0o644)
	t := &Tree{Root: root, Stock: filepath.Join(root, "stock"), Bin: filepath.Join(root, "bin"), VerifDir: verifDir, RepoDir: repoDir}
	fail := func(err error) (*Tree, error) {
		t.Close()
		return nil, err
	}
	if err := copyTree(repoDir, t.Stock, true); err != nil {
		return fail(infra("copy: %v", err))
	}
	instDir := filepath.Join(root, "inst")
	needInst := want.InstCLIs || want.WorkerInst
	if needInst {
		if err := copyTree(repoDir, instDir, false); err != nil {
			return fail(infra("copy: %v", err))
		}
	}
	env := goEnv()
	workerDir := filepath.Join(verifDir, "worker")
	for _, d := range []string{"stock", "inst"} {
		if err := os.MkdirAll(filepath.Join(t.Bin, d), 0o755); err != nil {
			return fail(infra("mkdir: %v", err))
		}
	}

	// The stock tree must compile; otherwise nothing can be said (exit 2).
	if out, err := run(t.Stock, env, "go", "build", "-trimpath", "-o", filepath.Join(t.Bin, "stock")+"/", "./cmd/..."); err != nil {
		return fail(infra("stock tree does not build:\n%s", out))
	}

	if needInst {
		res, err := simgen.Instrument(instDir, filepath.Join(verifDir, "simrt"))
		if err != nil {
			t.InstError = err.Error()
		} else {
			t.Sites = res
			t.Inst = instDir
			t.Instrumented = true
		}
	}

	modfile := func(name, bklDir string) (string, error) {
		src, err := os.ReadFile(filepath.Join(verifDir, "worker", "go.mod"))
		if err != nil {
			return "", err
		}
		lines := strings.Split(string(src), "\n")
		for i, l := range lines {
			if strings.HasPrefix(l, "replace github.com/gopatchy/bkl =>") {
				lines[i] = "replace github.com/gopatchy/bkl => " + bklDir
			}
			if strings.HasPrefix(l, "replace simrt =>") {
				lines[i] = "replace simrt => " + filepath.Join(verifDir, "simrt")
			}
			if strings.HasPrefix(l, "replace wire =>") {
				lines[i] = "replace wire => " + filepath.Join(verifDir, "wire")
			}
		}
		p := filepath.Join(root, name+".mod")
		if err := os.WriteFile(p, []byte(strings.Join(lines, "\n")), 0o644); err != nil {
			return "", err
		}
		sum, _ := os.ReadFile(filepath.Join(verifDir, "worker", "go.sum"))
		rsum, _ := os.ReadFile(filepath.Join(bklDir, "go.sum"))
		if err := os.WriteFile(filepath.Join(root, name+".sum"), append(append(sum, '\n'), rsum...), 0o644); err != nil {
			return "", err
		}
		return p, nil
	}

	type job struct {
		name string
		fn   func() (string, error)
		soft bool // failure only disables instrumentation
	}
	var jobs []job
	if t.Instrumented && want.InstCLIs {
		jobs = append(jobs, job{"inst CLIs", func() (string, error) {
			return run(t.Inst, env, "go", "build", "-trimpath", "-o", filepath.Join(t.Bin, "inst")+"/", "./cmd/...")
		}, true})
	}
	if t.Instrumented && want.WorkerInst {
		jobs = append(jobs, job{"worker-inst", func() (string, error) {
			mf, err := modfile("inst", t.Inst)
			if err != nil {
				return "", err
			}
			return run(workerDir, env, "go", "build", "-trimpath", "-modfile="+mf, "-o", filepath.Join(t.Bin, "worker-inst"), "./libsimworker")
		}, true})
	}
	if want.WorkerStock || ((want.WorkerInst) && !t.Instrumented) {
		jobs = append(jobs, job{"worker-stock", func() (string, error) {
			mf, err := modfile("stock", t.Stock)
			if err != nil {
				return "", err
			}
			return run(workerDir, env, "go", "build", "-trimpath", "-modfile="+mf, "-o", filepath.Join(t.Bin, "worker-stock"), "./libsimworker")
		}, false})
	}
	if want.WorkerRace {
		jobs = append(jobs, job{"worker-race", func() (string, error) {
			mf, err := modfile("race", t.Stock)
			if err != nil {
				return "", err
			}
			renv := append(append([]string{}, env...), "CGO_ENABLED=1")
			return run(workerDir, renv, "go", "build", "-race", "-trimpath", "-modfile="+mf, "-o", filepath.Join(t.Bin, "worker-race"), "./libsimworker")
		}, false})
	}
	if want.Stub {
		jobs = append(jobs, job{"stub", func() (string, error) {
			return run(verifDir, env, "go", "build", "-trimpath", "-o", filepath.Join(t.Bin, "stub"), "./cmd/stub")
		}, false})
	}
	var wg sync.WaitGroup
	outs := make([]string, len(jobs))
	errs := make([]error, len(jobs))
	for i, j := range jobs {
		wg.Add(1)
		go func(i int, j job) {
			defer wg.Done()
			outs[i], errs[i] = j.fn()
		}(i, j)
	}
	wg.Wait()
	needStockWorker := false
	for i, j := range jobs {
		if errs[i] == nil {
			continue
		}
		if j.soft {
			// The instrumenter produced something that does not compile (an
			// edit in /repo uses a construct it cannot wrap). Fall back to
			// the stock tree with runtime-random order; never a verdict.
			t.Instrumented = false
			t.InstError = fmt.Sprintf("%s: %v\n%s", j.name, errs[i], outs[i])
			if j.name == "worker-inst" {
				needStockWorker = true
			}
			continue
		}
		return fail(infra("build %s: %v\n%s", j.name, errs[i], outs[i]))
	}
	if needStockWorker && !want.WorkerStock {
		mf, err := modfile("stock", t.Stock)
		if err != nil {
			return fail(infra("modfile: %v", err))
		}
		if out, err := run(workerDir, env, "go", "build", "-trimpath", "-modfile="+mf, "-o", filepath.Join(t.Bin, "worker-stock"), "./libsimworker"); err != nil {
			return fail(infra("build worker-stock: %v\n%s", err, out))
		}
	}
	t.BuildSeconds = time.Since(t0).Seconds()
	return t, nil
}

// Close removes the scratch world.
func (t *Tree) Close() {
	if t != nil && t.Root != "" {
		if os.Getenv("VERIF_KEEP_SCRATCH") != "" {
			fmt.Fprintf(os.Stderr, "verif: keeping scratch world %s\n", t.Root)
			return
		}
		os.RemoveAll(t.Root)
	}
}

// Tool returns the path of a CLI binary.
func (t *Tree) Tool(kind, name string) string {
	if kind == "inst" && t.Instrumented {
		return filepath.Join(t.Bin, "inst", name)
	}
	return filepath.Join(t.Bin, "stock", name)
}

// Worker returns the libsim worker to use ("inst" falls back to stock).
func (t *Tree) Worker(kind string) string {
	switch kind {
	case "race":
		return filepath.Join(t.Bin, "worker-race")
	case "inst":
		if t.Instrumented {
			return filepath.Join(t.Bin, "worker-inst")
		}
	}
	return filepath.Join(t.Bin, "worker-stock")
}
