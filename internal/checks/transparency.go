package checks

import (
	"bytes"
	"fmt"
	"os"
	"os/exec"
	"path/filepath"
	"sort"
	"sync"

	"verif/internal/libsim"
)

func init() { Transparency = transparency }

// transparency ties results obtained on the instrumented copy back to the
// shipped code: with no schedule installed, the instrumented CLIs must give
// byte-identical stdout and the same status as the stock CLIs on every
// tests/*/cmd fixture. A difference is an infrastructure failure (exit 2).
func transparency(e *Env) error {
	dirs, _ := filepath.Glob(filepath.Join(e.Tree.Stock, "tests", "*", "cmd"))
	sort.Strings(dirs)
	if len(dirs) == 0 {
		return nil
	}
	type res struct {
		out    string
		status int
	}
	runOne := func(dir, kind string, idx int) (res, error) {
		tmp, err := os.MkdirTemp(e.Tree.Root, "fixture-")
		if err != nil {
			return res{}, err
		}
		defer os.RemoveAll(tmp)
		cmd := exec.Command("bash", "-c", "source cmd")
		cmd.Dir = dir
		cmd.Env = []string{"PATH=" + filepath.Join(e.Tree.Bin, kind) + ":/usr/bin:/bin", "TESTTMP=" + tmp, "HOME=" + tmp, "LANG=C"}
		var out bytes.Buffer
		cmd.Stdout = &out
		err = cmd.Run()
		status := 0
		if ee, ok := err.(*exec.ExitError); ok {
			status = ee.ExitCode()
		} else if err != nil {
			return res{}, err
		}
		return res{out.String(), status}, nil
	}
	var mu sync.Mutex
	var firstErr error
	var wg sync.WaitGroup
	sem := make(chan struct{}, e.Workers)
	for i, cmdPath := range dirs {
		wg.Add(1)
		sem <- struct{}{}
		go func(i int, dir string) {
			defer wg.Done()
			defer func() { <-sem }()
			a, err1 := runOne(dir, "stock", i)
			b, err2 := runOne(dir, "inst", i)
			mu.Lock()
			defer mu.Unlock()
			if firstErr != nil {
				return
			}
			if err1 != nil || err2 != nil {
				firstErr = &libsim.InfraError{Msg: fmt.Sprintf("transparency: %s: %v %v", dir, err1, err2)}
				return
			}
			if a != b {
				firstErr = &libsim.InfraError{Msg: fmt.Sprintf("transparency: instrumented CLI differs from stock on fixture %s: stock (%d) %q, instrumented (%d) %q", filepath.Base(dir), a.status, short(a.out, 300), b.status, short(b.out, 300))}
			}
		}(i, filepath.Dir(cmdPath))
	}
	wg.Wait()
	if firstErr == nil {
		e.Ev.Coverage["transparency_fixtures_identical"] = len(dirs)
	}
	return firstErr
}
