package checks

import (
	"bytes"
	"fmt"
	"os"
	"os/exec"
	"path/filepath"
	"sort"
	"strings"
)

func init() { Selftest = selftest }

// selftest proves the determinism of the harness: every check is run on a
// small number of run indices in separate processes with different worker
// counts and GOMAXPROCS values, twice each, and the per-run event logs
// (generated case, schedule signatures, outcomes) must be identical. A
// difference is an infrastructure failure (exit 2), never a verdict.
func selftest(verifDir, repoDir string) error {
	self, err := os.Executable()
	if err != nil {
		return err
	}
	tmp, err := os.MkdirTemp("", "verif-selftest-")
	if err != nil {
		return err
	}
	defer os.RemoveAll(tmp)
	ids := make([]string, 0, len(Registry))
	for id := range Registry {
		ids = append(ids, id)
	}
	sort.Strings(ids)
	runs := os.Getenv("VERIF_SELFTEST_RUNS")
	if runs == "" {
		runs = "40"
	}
	seeds := []string{"1", "7"}
	if s := os.Getenv("VERIF_SELFTEST_SEEDS"); s != "" {
		seeds = strings.Fields(s)
	}
	type cfg struct{ workers, gmp string }
	cfgs := []cfg{{"1", "1"}, {"4", "4"}, {"16", "16"}, {"16", "2"}}
	for _, id := range ids {
		for _, seed := range seeds {
			var ref []byte
			refName := ""
			for ci, c := range cfgs {
				for rep := 0; rep < 2; rep++ {
					logPath := filepath.Join(tmp, fmt.Sprintf("%s-%s-%d-%d.log", id, seed, ci, rep))
					cmd := exec.Command(self, "check", id, "--tier", "quick")
					cmd.Dir = verifDir
					cmd.Env = append(os.Environ(), "VERIF_SEED="+seed, "VERIF_RUNS="+runs, "VERIF_EVENTLOG="+logPath,
						"VERIF_WORKERS="+c.workers, "GOMAXPROCS="+c.gmp, "VERIF_EVIDENCE_DIR="+tmp, "VERIF_DIR="+verifDir, "VERIF_REPO="+repoDir, "VERIF_C09_NORACE=1")
					var out bytes.Buffer
					cmd.Stdout, cmd.Stderr = &out, &out
					if err := cmd.Run(); err != nil {
						return fmt.Errorf("%s seed %s workers %s GOMAXPROCS %s: %v\n%s", id, seed, c.workers, c.gmp, err, out.String())
					}
					b, err := os.ReadFile(logPath)
					if err != nil {
						return err
					}
					if len(b) == 0 {
						return fmt.Errorf("%s: empty event log", id)
					}
					name := fmt.Sprintf("workers=%s GOMAXPROCS=%s rep=%d", c.workers, c.gmp, rep)
					if ref == nil {
						ref, refName = b, name
						continue
					}
					if !bytes.Equal(ref, b) {
						return fmt.Errorf("%s seed %s: event log differs between [%s] and [%s]: %s", id, seed, refName, name, firstDiff(ref, b))
					}
				}
			}
			fmt.Printf("selftest: %s seed=%s: %d event-log lines identical across %d processes\n", id, seed, bytes.Count(ref, []byte("\n")), len(cfgs)*2)
		}
	}
	return nil
}

func firstDiff(a, b []byte) string {
	la, lb := strings.Split(string(a), "\n"), strings.Split(string(b), "\n")
	for i := range la {
		if i >= len(lb) || la[i] != lb[i] {
			x := ""
			if i < len(lb) {
				x = lb[i]
			}
			return fmt.Sprintf("line %d: %q vs %q", i+1, la[i], x)
		}
	}
	return "length differs"
}
