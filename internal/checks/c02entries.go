package checks

import (
	"encoding/json"
	"fmt"

	"verif/internal/gen"
	"verif/internal/harness"
	"verif/internal/libsim"
	"verif/internal/model"
	"wire"
)

// C02EntryCase is the list-entry form of the fan-out (anchored in
// merge.go:mergeListMatch): one layer entry with $match is applied to every
// matching entry of a list, then a later layer edits what it wrote. Each
// matching entry must receive the result it would receive if it were the only
// entry of the list.
type C02EntryCase struct {
	Sched   wire.Sched `json:"schedule"`
	Entries []any      `json:"entries"`
	Patches []any      `json:"patches"` // list entries carrying $match
}

func genC02Entries(r *gen.Rand) *C02EntryCase {
	c := &C02EntryCase{Sched: wire.Sched{Mode: "Hash", Seed: r.U64() >> 1, Coin: 0.5}}
	tc := c02Tree(true)
	n := r.Range(2, 4)
	for i := 0; i < n; i++ {
		e := map[string]any{"k": r.Range(1, 2)}
		switch r.Intn(3) {
		case 0:
			e["c"] = tc.Scalar(r)
		case 1:
			e["c"] = map[string]any{"p": i}
		}
		if r.Chance(0.3) {
			e["n"] = i
		}
		c.Entries = append(c.Entries, e)
	}
	np := r.Range(2, 3)
	for p := 0; p < np; p++ {
		pat := map[string]any{"k": r.Range(1, 2)}
		if r.Chance(0.15) {
			pat = map[string]any{}
		}
		entry := map[string]any{"$match": pat}
		switch {
		case p == 0 || r.Chance(0.3):
			v := gen.PickAny(r, []any{map[string]any{"x": 1}, map[string]any{"x": map[string]any{"q": 1}}, []any{1}})
			if r.Chance(0.3) {
				// $value never mentions the reserved key k
				entry["$value"] = map[string]any{"c": v, "via": fmt.Sprintf("value%d", p)}
			} else {
				entry["c"] = v
			}
		default:
			entry["c"] = gen.PickAny(r, []any{map[string]any{"y": p + 1}, map[string]any{"x": map[string]any{"r": p}}, []any{p + 5}, map[string]any{"x": "$delete"}})
		}
		c.Patches = append(c.Patches, entry)
	}
	return c
}

func c02EntryRequest(c *C02EntryCase, run int64) (*wire.Request, [][]int) {
	req := &wire.Request{Run: run, Sched: c.Sched, Budget: StepBudget, Cwd: "/", Env: stdEnv}
	mk := func(entries []any, patches []int) wire.TaskSpec {
		var t wire.TaskSpec
		t.Ops = append(t.Ops, wire.Op{Op: "MergeDocument", ID: "base", Data: &wire.Tree{V: map[string]any{"l": wire.Clone(entries)}}, Snap: true})
		for _, pi := range patches {
			t.Ops = append(t.Ops, wire.Op{Op: "MergeDocument", ID: fmt.Sprintf("p%d", pi), Parents: []string{"base"}, Data: &wire.Tree{V: map[string]any{"l": []any{wire.Clone(c.Patches[pi])}}}, Snap: true})
		}
		return t
	}
	all := make([]int, len(c.Patches))
	for i := range all {
		all[i] = i
	}
	req.Tasks = append(req.Tasks, mk(c.Entries, all))
	var applied [][]int
	for _, e := range c.Entries {
		var ps []int
		for pi, p := range c.Patches {
			// the reserved key k is never edited ($value keeps it), so the
			// pattern can be decided on the original entry
			if model.Match(e, p.(map[string]any)["$match"]) {
				ps = append(ps, pi)
			}
		}
		applied = append(applied, ps)
		req.Tasks = append(req.Tasks, mk([]any{e}, ps))
	}
	return req, applied
}

func listOf(r wire.OpResult) ([]any, bool) {
	if !r.HasDocs || len(r.Docs) != 1 {
		return nil, false
	}
	m, ok := r.Docs[0].Data.V.(map[string]any)
	if !ok {
		return nil, false
	}
	l, ok := m["l"].([]any)
	return l, ok
}

func judgeC02Entries(c *C02EntryCase, tasks []taskOutcome, applied [][]int) c02Obs {
	main := tasks[0]
	for pi := -1; pi < len(c.Patches); pi++ {
		op := pi + 1
		// expected: does any single-entry replay fail at this patch? does any entry match it?
		anyMatch, anyFail := pi < 0, false
		var want []any
		for ei := range c.Entries {
			iso := tasks[1+ei]
			k := 0
			for j, a := range applied[ei] {
				if a <= pi {
					k = j + 1
				}
				if a == pi {
					anyMatch = true
					if iso.outcomeOf(j+1) != "ok" {
						anyFail = true
					}
				}
			}
			if k < len(iso.Ops) {
				if l, ok := listOf(iso.Ops[k]); ok && len(l) == 1 {
					want = append(want, l[0])
					continue
				}
			}
			want = append(want, "<unavailable>")
		}
		got := main.outcomeOf(op)
		if !anyMatch || anyFail {
			if got == "ok" {
				return c02Obs{Clause: "entry-layer-accepted-but-single-entry-replay-rejects", Op: op}
			}
			return c02Obs{}
		}
		if got != "ok" {
			return c02Obs{Clause: "entry-layer-rejected-but-single-entry-replays-accept", Op: op, Got: map[string]any{"outcome": got, "err": errOf(main, op)}, Want: "ok"}
		}
		l, ok := listOf(main.Ops[op])
		if !ok {
			return c02Obs{Clause: "entry-list-missing", Op: op}
		}
		if wire.Canon(l) != wire.Canon(want) {
			return c02Obs{Clause: "entry-differs-from-single-entry-replay", Op: op, Got: short(wire.Canon(l), 600), Want: short(wire.Canon(want), 600)}
		}
	}
	return c02Obs{NonTriv: true}
}

func c02EntryCandidates(c *C02EntryCase) []*C02EntryCase {
	var out []*C02EntryCase
	clone := func() *C02EntryCase {
		js, _ := json.Marshal(struct {
			S wire.Sched
			E wire.Tree
			P wire.Tree
		}{c.Sched, wire.Tree{V: c.Entries}, wire.Tree{V: c.Patches}})
		var n struct {
			S wire.Sched
			E wire.Tree
			P wire.Tree
		}
		_ = json.Unmarshal(js, &n)
		return &C02EntryCase{Sched: n.S, Entries: n.E.V.([]any), Patches: n.P.V.([]any)}
	}
	for i := range c.Entries {
		if len(c.Entries) > 1 {
			n := clone()
			n.Entries = append(n.Entries[:i], n.Entries[i+1:]...)
			out = append(out, n)
		}
	}
	for i := range c.Patches {
		if len(c.Patches) > 1 {
			n := clone()
			n.Patches = append(n.Patches[:i], n.Patches[i+1:]...)
			out = append(out, n)
		}
	}
	if c.Sched.Mode != "Asc" {
		n := clone()
		n.Sched = wire.Sched{Mode: "Asc"}
		out = append(out, n)
	}
	return out
}

func (c *C02EntryCase) MarshalJSON() ([]byte, error) {
	return json.Marshal(struct {
		Sched   wire.Sched `json:"schedule"`
		Entries wire.Tree  `json:"entries"`
		Patches wire.Tree  `json:"patches"`
	}{c.Sched, wire.Tree{V: c.Entries}, wire.Tree{V: c.Patches}})
}

func (c *C02EntryCase) UnmarshalJSON(b []byte) error {
	var n struct {
		Sched   wire.Sched `json:"schedule"`
		Entries wire.Tree  `json:"entries"`
		Patches wire.Tree  `json:"patches"`
	}
	if err := json.Unmarshal(b, &n); err != nil {
		return err
	}
	c.Sched = n.Sched
	c.Entries, _ = n.Entries.V.([]any)
	c.Patches, _ = n.Patches.V.([]any)
	return nil
}

func execC02Entries(pool *libsim.Pool, c *C02EntryCase, run int64) (c02Obs, *wire.Result, error) {
	req, applied := c02EntryRequest(c, run)
	tasks, res, err := execTasks(pool, req)
	if err != nil {
		return c02Obs{}, nil, err
	}
	return judgeC02Entries(c, tasks, applied), res, nil
}

func runC02EntryOnce(e *Env, pool *libsim.Pool, run int64) harness.RunResult {
	r := gen.New(e.Seed, "C02-entries", run)
	c := genC02Entries(r)
	o, _, err := execC02Entries(pool, c, run)
	if err != nil {
		return harness.RunResult{Err: err}
	}
	key := ""
	if o.NonTriv {
		js, _ := json.Marshal(c)
		key = "entries:" + string(js)
	}
	e.Ev.Eval(key)
	e.Ev.Count("entry_fanout_runs", 1)
	if o.Clause == "" {
		return harness.RunResult{}
	}
	return harness.RunResult{Violation: &harness.Violation{Property: "C02", Check: "entries", Clause: o.Clause, Seed: e.Seed, Run: run, Case: c, Observed: o}}
}

func init() {
	replayers["C02/entries"] = func(e *Env, raw []byte) (string, any, error) {
		var v struct {
			Clause string       `json:"clause"`
			Run    int64        `json:"run"`
			Case   C02EntryCase `json:"case"`
		}
		if err := json.Unmarshal(raw, &v); err != nil {
			return "", nil, err
		}
		pool := libsim.NewPool(e.Tree.Worker("inst"), 1, workerAS)
		defer pool.Close()
		o, _, err := execC02Entries(pool, &v.Case, v.Run)
		if err != nil {
			return "", nil, err
		}
		if o.Clause != v.Clause {
			return "", o, nil
		}
		return o.Clause, o, nil
	}
}
