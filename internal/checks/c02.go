package checks

import (
	"encoding/json"
	"fmt"
	"os"
	"path/filepath"
	"strings"
	"time"

	"verif/internal/gen"
	"verif/internal/harness"
	"verif/internal/libsim"
	"verif/internal/model"
	"wire"
)

// C02Case is a history of layer applications to one parser.
type C02Case struct {
	Sched wire.Sched `json:"schedule"`
	Ops   []wire.Op  `json:"ops"` // MergeDocument calls, in order
	// Chain/Layer place each call in a file layout (file route): layer l of
	// chain c is file <chain>.<l1>.<l2>...
	Chain     []int    `json:"chain"`
	Layer     []int    `json:"layer"`
	FileRoute bool     `json:"file_route,omitempty"`
	Exts      []string `json:"exts,omitempty"`
	// Debug: the parser under test logs ("api": SetDebug(true); "env":
	// BKL_DEBUG=1 in its environment) — an observer that must not matter
	Debug string `json:"debug,omitempty"`
}

var c02Kinds = []string{"svc", "cfg"}

var c02Routes = []string{"/api/v1", "/api/v[12]", "/api/v2", "/search?q", "/search_q", "/api/*", "/api/v.", "^/api/v1$", "/api/%s", "/api/v1\\"}

func c02Tree(safe bool) gen.TreeCfg {
	t := gen.DefaultTreeCfg()
	t.Safe = safe
	t.Strs = []string{"x", "y", "hello", "v1", "prod", "has space"}
	t.MaxDepth = 2
	t.MaxWidth = 3
	t.WideP = 0
	t.BigP = 0.03
	return t
}

func genC02(r *gen.Rand, maxLayers int) *C02Case {
	c := &C02Case{}
	c.Sched = wire.Sched{Mode: "Hash", Seed: r.U64() >> 1, Coin: gen.PickAny(r, []float64{0, 0.5, 1})}
	c.FileRoute = r.Chance(0.3)
	if r.Chance(0.12) {
		c.Debug = r.Pick("api", "env")
	}
	tc := c02Tree(true)
	add := func(op wire.Op, chain, layer int) {
		c.Ops = append(c.Ops, op)
		c.Chain = append(c.Chain, chain)
		c.Layer = append(c.Layer, layer)
	}
	// an unrelated chain, loaded first (a second command-line input)
	other := r.Chance(0.2)
	nOther := 0
	if other {
		doc := tc.Map(r, 2)
		doc["name"] = "m0"
		doc["kind"] = gen.PickAny(r, c02Kinds)
		add(wire.Op{Op: "MergeDocument", ID: "M0|doc0", Data: &wire.Tree{V: doc}}, 1, 0)
		nOther = 1
		if r.Chance(0.4) {
			// a whole stream of unrelated documents of a kind of their own:
			// a pattern can then match several documents outside its lineage only
			nAux := r.Range(2, 6)
			for k := 1; k <= nAux; k++ {
				d := tc.Map(r, 1)
				d["name"] = fmt.Sprintf("m%d", k)
				d["kind"] = "aux"
				add(wire.Op{Op: "MergeDocument", ID: fmt.Sprintf("M0|doc%d", k), Data: &wire.Tree{V: d}}, 1, 0)
				nOther++
			}
		}
	}
	nBase := r.Range(1, 4)
	bigIDs := !c.FileRoute && r.Chance(0.25)
	listAttrs := r.Chance(0.25)
	metaAttrs := r.Chance(0.25)
	oddDocs := r.Chance(0.15) // documents that are not maps: empty, a list, a scalar
	// typed scalars that only a TOML decoder (or a caller who decoded a file
	// itself) leaves in a tree; through MergeDocument only: in TOML *files*
	// every integer arrives as int64, which bkl treats differently from int in
	// several places ($repeat, list $match) — cross-format equality is C04's
	// subject, not this check's
	dateAttrs := !c.FileRoute && r.Chance(0.15)
	// string values that a pattern language (glob, regexp, printf) would
	// read as something else than themselves; $match compares for equality
	routeAttrs := r.Chance(0.15)
	dates := []any{
		wire.Opaque{Type: "toml.LocalDate", Repr: "2024-06-01"}, wire.Opaque{Type: "toml.LocalDate", Repr: "2024-06-02"},
		wire.Opaque{Type: "toml.LocalDateTime", Repr: "2024-06-01T10:00:00"}, wire.Opaque{Type: "toml.LocalTime", Repr: "10:00:00"},
	}
	tagShift := r.Intn(4)
	var baseTrees []map[string]any
	var prev []string
	progCfg := gen.ProgCfg{Tree: tc, Merge: true, Repeat: true, Output: true, Interp: true, StrRef: true, Plants: 1}
	for i := 0; i < nBase; i++ {
		doc := tc.Map(r, 2)
		if r.Chance(0.6) {
			doc[gen.PickAny(r, gen.DefaultKeys)] = tc.Map(r, 1)
		}
		if r.Chance(0.4) {
			doc[gen.PickAny(r, gen.DefaultKeys)] = []any{tc.Scalar(r), tc.Scalar(r)}
		}
		if r.Chance(0.15) {
			var d any = doc
			d, _ = progCfg.Program2(r, d)
			if m, ok := d.(map[string]any); ok {
				doc = m
			}
		}
		doc["name"] = fmt.Sprintf("n%d", i)
		doc["kind"] = gen.PickAny(r, c02Kinds)
		if metaAttrs {
			// an attribute that is a map in some documents, a scalar in others, absent in the rest
			switch (i + tagShift) % 3 {
			case 0:
				doc["meta"] = map[string]any{"x": 1 + i%2}
			case 1:
				doc["meta"] = "flat"
			default:
				// the same information under a key that contains a dot: an
				// ordinary key, not a path into meta
				doc["meta.x"] = 1 + i%2
			}
		}
		if bigIDs {
			// 64-bit identifiers that differ only in their low bits
			doc["uid"] = 1180591620717411300 + i*3
		}
		if routeAttrs {
			doc["route"] = c02Routes[(i+tagShift)%len(c02Routes)]
		}
		if dateAttrs {
			doc["released"] = dates[(i+tagShift)%len(dates)]
		}
		if listAttrs {
			// list-valued attributes for list patterns (never edited by layers)
			doc["tags"] = [][]any{{"prod"}, {"prod", "eu"}, {"dev", "eu", "x"}, {}}[(i+tagShift)%4]
			doc["ports"] = []any{map[string]any{"pname": "app", "image": []string{"nginx", "redis"}[(i+tagShift)%2]}}
		}
		id := fmt.Sprintf("L0|doc%d", i)
		var data any = doc
		if oddDocs && i > 0 && r.Chance(0.5) {
			data = gen.PickAny(r, []any{nil, []any{1, 2}, "just a scalar", []any{}})
		}
		add(wire.Op{Op: "MergeDocument", ID: id, Data: &wire.Tree{V: data}}, 0, 0)
		prev = append(prev, id)
		baseTrees = append(baseTrees, doc)
	}
	nLayers := r.Range(1, maxLayers)
	fanKey := ""
	var fanVal any
	for l := 1; l <= nLayers; l++ {
		var ids []string
		nd := r.Range(1, 3)
		if r.Chance(0.5) {
			nd = 1
		}
		for d := 0; d < nd; d++ {
			patch := map[string]any{}
			switch {
			case fanKey != "" && r.Chance(0.7):
				// follow-up: edit the container the previous layer fanned out
				switch v := fanVal.(type) {
				case map[string]any:
					switch r.Intn(5) {
					case 4:
						if _, ok := v["w"].(map[string]any); ok {
							patch[fanKey] = map[string]any{"w": map[string]any{"added": l}}
						} else {
							patch[fanKey] = map[string]any{"added": l}
						}
					case 0:
						patch[fanKey] = map[string]any{gen.PickAny(r, gen.WideKeys[6:]): tc.Scalar(r)}
					case 1:
						ks := gen.SortedKeys(v)
						if len(ks) > 0 {
							patch[fanKey] = map[string]any{ks[0]: "$delete"}
						} else {
							patch[fanKey] = map[string]any{"z": 1}
						}
					case 2:
						ks := gen.SortedKeys(v)
						if len(ks) > 0 {
							patch[fanKey] = map[string]any{ks[0]: map[string]any{"deep": l}}
						} else {
							patch[fanKey] = map[string]any{"z": 1}
						}
					default:
						patch[fanKey] = map[string]any{"y": l + 1}
					}
				case []any:
					switch r.Intn(4) {
					case 3:
						if len(v) > 0 {
							if m, ok := v[0].(map[string]any); ok && m["k"] != nil {
								// edit inside the entry the previous layer appended everywhere
								patch[fanKey] = []any{map[string]any{"$match": map[string]any{"k": m["k"]}, "env": map[string]any{"added": l}}}
								break
							}
						}
						patch[fanKey] = []any{l + 20}
					case 0:
						patch[fanKey] = []any{l + 10}
					case 1:
						if len(v) > 0 {
							patch[fanKey] = []any{map[string]any{"$match": v[0], "$value": "changed"}}
						} else {
							patch[fanKey] = []any{1}
						}
					default:
						if len(v) > 0 {
							patch[fanKey] = []any{map[string]any{"$delete": v[0]}}
						} else {
							patch[fanKey] = []any{2}
						}
					}
				default:
					patch[fanKey] = fmt.Sprintf("over%d", l)
				}
				fanKey = ""
			case r.Chance(0.6):
				// fan-out: introduce or replace a container in every target
				k := gen.PickAny(r, append(append([]string{}, gen.DefaultKeys...), gen.WideKeys[6:9]...))
				var v any
				switch r.Intn(8) {
				case 0:
					v = []any{1, 2}
				case 1:
					v = map[string]any{"$replace": true, "x": 1, "w": map[string]any{"q": 1}}
				case 2:
					v = []any{map[string]any{"k": 1}, "$replace"}
				case 3:
					v = map[string]any{} // an empty container is a container too
				case 4:
					v = []any{map[string]any{"env": map[string]any{}, "k": 1}}
				case 5:
					v = map[string]any{"w": map[string]any{}, "l": []any{}}
				default:
					v = map[string]any{"x": 1, "w": map[string]any{"q": "s"}}
				}
				patch[k] = v
				fanKey, fanVal = k, v
				if r.Chance(0.1) {
					patch = map[string]any{"$replace": true, "name": "r", "kind": gen.PickAny(r, c02Kinds), k: v}
				}
			default:
				ch := gen.ChildCfg{Tree: tc, Edits: r.Range(1, 2), PUseless: 0.03}
				patch = ch.Child(r, wire.Clone(gen.PickAny(r, baseTrees)))
				delete(patch, "name")
				delete(patch, "kind")
				delete(patch, "uid")
				delete(patch, "released")
				delete(patch, "route")
				delete(patch, "tags")
				delete(patch, "ports")
				delete(patch, "meta")
				delete(patch, "meta.x")
				if len(patch) == 0 {
					patch["z"] = l
				}
			}
			if (metaAttrs || oddDocs) && r.Chance(0.5) {
				// inverted patterns, at the top and nested under a key that
				// may be a map, a scalar or absent in a candidate
				patch["$match"] = gen.PickAny(r, []any{
					map[string]any{"meta": map[string]any{"x": 1, "$invert": true}},
					map[string]any{"meta": map[string]any{"x": 2}},
					map[string]any{"kind": gen.PickAny(r, c02Kinds), "$invert": true},
					map[string]any{"name": "n0", "$invert": true},
					map[string]any{"meta": "flat", "$invert": true},
					map[string]any{"meta": map[string]any{"$invert": true, "nope": 1}},
					map[string]any{"meta.x": 1},
					map[string]any{"meta.x": 2},
					map[string]any{"meta.x": 1, "$invert": true},
				})
			} else if listAttrs && r.Chance(0.5) {
				// list patterns: every pattern entry must match SOME element —
				// several entries may be satisfied by the same element, and a
				// pattern may be longer than the list it is matched against
				patch["$match"] = gen.PickAny(r, []any{
					map[string]any{"tags": []any{"prod"}},
					map[string]any{"tags": []any{"prod", "prod"}},
					map[string]any{"tags": []any{"eu", "prod", "eu"}},
					map[string]any{"tags": []any{"eu"}},
					map[string]any{"tags": []any{}},
					map[string]any{"ports": []any{map[string]any{"pname": "app"}, map[string]any{"image": "nginx"}}},
					map[string]any{"ports": []any{map[string]any{"pname": "app"}, map[string]any{"pname": "app"}, map[string]any{"image": "redis"}}},
					map[string]any{"tags": []any{"dev"}, "$invert": true},
				})
			} else if routeAttrs && r.Chance(0.6) {
				rt := gen.PickAny(r, c02Routes)
				if r.Chance(0.25) {
					patch["$match"] = map[string]any{"route": rt, "$invert": true}
				} else {
					patch["$match"] = map[string]any{"route": rt}
				}
			} else if dateAttrs && r.Chance(0.6) {
				d := gen.PickAny(r, dates)
				if r.Chance(0.3) {
					patch["$match"] = map[string]any{"released": d, "$invert": true}
				} else {
					patch["$match"] = map[string]any{"released": d}
				}
			} else if bigIDs && r.Chance(0.5) {
				uid := 1180591620717411300 + r.Intn(nBase)*3
				if r.Chance(0.3) {
					patch["$match"] = map[string]any{"uid": uid, "$invert": true}
				} else {
					patch["$match"] = map[string]any{"uid": uid}
				}
			} else if r.Chance(0.4) {
				switch r.Intn(7) {
				case 0:
					patch["$match"] = map[string]any{"name": fmt.Sprintf("n%d", r.Intn(nBase))}
				case 1:
					patch["$match"] = map[string]any{"kind": gen.PickAny(r, c02Kinds)}
				case 2:
					patch["$match"] = map[string]any{"kind": "none"}
					if nOther > 1 && r.Chance(0.7) {
						patch["$match"] = map[string]any{"kind": "aux"}
					}
				case 3:
					patch["$match"] = nil
					patch["name"] = fmt.Sprintf("x%d%d", l, d)
					patch["kind"] = gen.PickAny(r, c02Kinds)
				case 4:
					patch["$match"] = map[string]any{"kind": gen.PickAny(r, c02Kinds), "$invert": true}
				case 5:
					if other {
						patch["$match"] = map[string]any{"name": "m0"}
					} else {
						patch["$match"] = map[string]any{}
					}
				default:
					patch["$match"] = map[string]any{"name": fmt.Sprintf("n%d", r.Intn(nBase)), "kind": gen.PickAny(r, c02Kinds)}
				}
			}
			id := fmt.Sprintf("L%d|doc%d", l, d)
			add(wire.Op{Op: "MergeDocument", ID: id, Parents: append([]string{}, prev...), Data: &wire.Tree{V: patch}}, 0, l)
			ids = append(ids, id)
		}
		prev = ids
	}
	for l := 0; l <= nLayers; l++ {
		c.Exts = append(c.Exts, r.Pick("yaml", "json", "yaml", "yml"))
	}
	return c
}

type c02Obs struct {
	Clause  string `json:"clause"`
	Op      int    `json:"op"`
	Doc     int    `json:"doc,omitempty"`
	Got     any    `json:"got,omitempty"`
	Want    any    `json:"want,omitempty"`
	NonTriv bool   `json:"-"`
	Fanout  int    `json:"-"`
	Aliased bool   `json:"-"`
}

// c02Plan runs the targeting model over the case.
type c02Plan struct {
	m       *model.Stream
	targets [][]int // per op: state docs merged into
	created []bool
	noMatch []bool
	stateAt []int // number of state docs after each op
}

func planC02(c *C02Case) *c02Plan {
	p := &c02Plan{m: model.NewStream()}
	for i, op := range c.Ops {
		t, cr, nm := p.m.Apply(i, op.ID, op.Parents, op.Data.V)
		p.targets = append(p.targets, t)
		p.created = append(p.created, cr)
		p.noMatch = append(p.noMatch, nm)
		p.stateAt = append(p.stateAt, len(p.m.State))
		if nm {
			break
		}
	}
	return p
}

// c02Request: task 0 applies the whole history to one parser; task 1+j
// replays state document j alone (its origin, then only the layers the model
// says target it) in a fresh parser.
func c02Request(c *C02Case, p *c02Plan, run int64, cwd string) *wire.Request {
	req := &wire.Request{Run: run, Sched: c.Sched, Budget: StepBudget, Cwd: cwd, Env: stdEnv}
	var main wire.TaskSpec
	if c.FileRoute {
		last := map[int]string{}
		var chains []int
		for i := range c.Ops {
			if _, ok := last[c.Chain[i]]; !ok {
				chains = append(chains, c.Chain[i])
			}
			last[c.Chain[i]] = c02FileName(c, c.Chain[i], c.Layer[i])
		}
		for _, ch := range chains {
			main.Ops = append(main.Ops, wire.Op{Op: "MergeFileLayers", Path: last[ch], Snap: true})
		}
	} else {
		for _, op := range c.Ops {
			o := op
			o.Snap = true
			main.Ops = append(main.Ops, o)
		}
	}
	main.Ops = append(main.Ops, wire.Op{Op: "OutputDocuments"})
	switch c.Debug {
	case "api":
		main.Debug = true
	case "env":
		main.Env = map[string]string{"BKL_DEBUG": "1"}
	}
	req.Tasks = append(req.Tasks, main)
	for _, sd := range p.m.State {
		var t wire.TaskSpec
		o := c.Ops[sd.Origin]
		o.Parents = nil
		o.Snap = true
		t.Ops = append(t.Ops, o)
		for _, pi := range sd.Patches {
			po := c.Ops[pi]
			po.Parents = []string{c.Ops[sd.Origin].ID}
			po.Snap = true
			t.Ops = append(t.Ops, po)
		}
		t.Ops = append(t.Ops, wire.Op{Op: "OutputDocuments"})
		req.Tasks = append(req.Tasks, t)
	}
	return req
}

func c02FileName(c *C02Case, chain, layer int) string {
	name := []string{"a", "z"}[chain%2]
	for l := 1; l <= layer; l++ {
		name += fmt.Sprintf(".l%d", l)
	}
	ext := "yaml"
	if layer < len(c.Exts) {
		ext = c.Exts[layer]
	}
	return name + "." + ext
}

func c02Files(c *C02Case) (map[string]string, bool) {
	type key struct{ ch, l int }
	docs := map[key][]any{}
	var order []key
	for i, op := range c.Ops {
		k := key{c.Chain[i], c.Layer[i]}
		if _, ok := docs[k]; !ok {
			order = append(order, k)
		}
		docs[k] = append(docs[k], op.Data.V)
	}
	files := map[string]string{}
	for _, k := range order {
		name := c02FileName(c, k.ch, k.l)
		s, ok := gen.StreamText(strings.TrimPrefix(filepath.Ext(name), "."), docs[k])
		if !ok {
			return nil, false
		}
		files[name] = s
	}
	return files, true
}

func dataOf(ds []wire.DocSnap) []string {
	out := make([]string, len(ds))
	for i, d := range ds {
		out[i] = wire.Canon(d.Data.V)
	}
	return out
}

// judgeC02 compares the one-parser history with the model's targeting and
// the isolated single-document replays.
func judgeC02(c *C02Case, p *c02Plan, tasks []taskOutcome) c02Obs {
	v := c02Obs{}
	main := tasks[0]
	iso := tasks[1:]
	// position of each patch inside the isolated task of each state doc
	isoPos := make([]map[int]int, len(p.m.State))
	for j, sd := range p.m.State {
		isoPos[j] = map[int]int{sd.Origin: 0}
		for k, pi := range sd.Patches {
			isoPos[j][pi] = k + 1
		}
	}
	// expected data of state doc j after call i: the snapshot of its isolated
	// replay after its last call <= i
	expectAfter := func(j, i int) (string, bool) {
		best := -1
		sd := p.m.State[j]
		if sd.Origin <= i {
			best = 0
		}
		for k, pi := range sd.Patches {
			if pi <= i {
				best = k + 1
			}
		}
		if best < 0 || best >= len(iso[j].Ops) || !iso[j].Ops[best].HasDocs || len(iso[j].Ops[best].Docs) != 1 {
			return "", false
		}
		return wire.Canon(iso[j].Ops[best].Docs[0].Data.V), true
	}
	// does any isolated replay fail at call i?
	isoFails := func(i int) (bool, string) {
		for j := range p.m.State {
			if k, ok := isoPos[j][i]; ok {
				if o := iso[j].outcomeOf(k); o != "ok" {
					return true, o
				}
			}
		}
		return false, ""
	}
	fanKeys := map[int]map[string]bool{} // state doc -> keys written by a fan-out
	checkState := func(i int, snap []wire.DocSnap, opIdx int) *c02Obs {
		want := p.stateAt[i]
		if len(snap) != want {
			return &c02Obs{Clause: "wrong-document-count", Op: opIdx, Got: len(snap), Want: want}
		}
		got := dataOf(snap)
		for j := 0; j < want; j++ {
			exp, ok := expectAfter(j, i)
			if !ok {
				return &c02Obs{Clause: "isolated-replay-unavailable", Op: opIdx, Doc: j}
			}
			if got[j] != exp {
				return &c02Obs{Clause: "document-differs-from-isolated-replay", Op: opIdx, Doc: j, Got: short(got[j], 700), Want: short(exp, 700)}
			}
		}
		return nil
	}
	failedAt := -1
	for i := range c.Ops {
		if i >= len(p.targets) {
			break
		}
		wantFail, why := p.noMatch[i], "no document matches"
		if !wantFail {
			wantFail, why = isoFails(i)
		}
		if len(p.targets[i]) >= 2 {
			v.Fanout++
			if m, ok := c.Ops[i].Data.V.(map[string]any); ok {
				for _, t := range p.targets[i] {
					if fanKeys[t] == nil {
						fanKeys[t] = map[string]bool{}
					}
					for k := range m {
						fanKeys[t][k] = true
					}
				}
			}
		} else if len(p.targets[i]) == 1 {
			if m, ok := c.Ops[i].Data.V.(map[string]any); ok {
				for k := range m {
					if fanKeys[p.targets[i][0]][k] && !strings.HasPrefix(k, "$") {
						v.NonTriv = true
					}
				}
			}
		}
		if len(p.targets[i]) >= 2 {
			if m, ok := c.Ops[i].Data.V.(map[string]any); ok {
				for _, t := range p.targets[i] {
					for k := range m {
						if fanKeys[t][k] && !strings.HasPrefix(k, "$") && v.Fanout > 1 {
							v.NonTriv = true
						}
					}
				}
			}
		}
		if c.FileRoute {
			if wantFail {
				failedAt = i
				break
			}
			continue
		}
		got := main.outcomeOf(i)
		if wantFail {
			if got == "ok" {
				return c02Obs{Clause: "layer-accepted-but-isolated-replay-rejects", Op: i, Got: got, Want: why}
			}
			failedAt = i
			// what the layer's own targets hold after a failed merge is not
			// specified; every OTHER document must be exactly what it was
			if i > 0 && i < len(main.Ops) && main.Ops[i].HasDocs {
				prev := p.stateAt[i-1]
				snap := main.Ops[i].Docs
				if len(snap) < prev {
					return c02Obs{Clause: "document-lost-by-rejected-layer", Op: i, Got: len(snap), Want: prev}
				}
				gotDocs := dataOf(snap)
				isTarget := map[int]bool{}
				for _, t := range p.targets[i] {
					isTarget[t] = true
				}
				for j := 0; j < prev; j++ {
					if isTarget[j] {
						continue
					}
					if exp, ok := expectAfter(j, i-1); ok && gotDocs[j] != exp {
						return c02Obs{Clause: "unselected-document-changed-by-rejected-layer", Op: i, Doc: j, Got: short(gotDocs[j], 700), Want: short(exp, 700)}
					}
				}
			}
			break
		}
		if got != "ok" {
			return c02Obs{Clause: "layer-rejected-but-isolated-replays-accept", Op: i, Got: map[string]any{"outcome": got, "err": errOf(main, i)}, Want: "ok"}
		}
		if i < len(main.Ops) && main.Ops[i].HasDocs {
			if main.Ops[i].Aliased {
				v.Aliased = true
			}
			if o := checkState(i, main.Ops[i].Docs, i); o != nil {
				o.NonTriv, o.Fanout = v.NonTriv, v.Fanout
				return *o
			}
		}
	}
	last := len(main.Ops) - 1
	if c.FileRoute {
		// one MergeFileLayers call per chain, then OutputDocuments
		nMerge := last
		anyFail := failedAt >= 0
		gotFail := false
		for k := 0; k < nMerge; k++ {
			if main.outcomeOf(k) != "ok" {
				gotFail = true
			}
		}
		if anyFail != gotFail {
			clause := "layer-rejected-but-isolated-replays-accept"
			if anyFail {
				clause = "layer-accepted-but-isolated-replay-rejects"
			}
			return c02Obs{Clause: clause, Op: failedAt, Got: map[string]any{"failed": gotFail, "err": errOf(main, nMerge-1)}, Want: map[string]any{"failed": anyFail}, NonTriv: v.NonTriv, Fanout: v.Fanout}
		}
		if anyFail {
			return v
		}
		if nMerge-1 < len(main.Ops) && main.Ops[nMerge-1].HasDocs {
			if o := checkState(len(c.Ops)-1, main.Ops[nMerge-1].Docs, nMerge-1); o != nil {
				o.NonTriv, o.Fanout = v.NonTriv, v.Fanout
				return *o
			}
		}
	}
	if failedAt >= 0 {
		return v
	}
	// evaluation must not leak between documents either
	var wantOuts []wire.Tree
	wantErr := false
	for j := range p.m.State {
		k := len(iso[j].Ops) - 1
		if iso[j].CrashAt >= 0 {
			return v
		}
		if o := iso[j].outcomeOf(k); o != "ok" {
			if o != "err" {
				return v // budget/panic: C08's subject
			}
			wantErr = true
			break
		}
		wantOuts = append(wantOuts, iso[j].Ops[k].Outs...)
	}
	got := main.outcomeOf(last)
	if got != "ok" && got != "err" {
		return v
	}
	if wantErr != (got == "err") {
		return c02Obs{Clause: "output-status-differs-from-isolated-replays", Op: last, Got: map[string]any{"outcome": got, "err": errOf(main, last)}, Want: map[string]any{"error": wantErr}, NonTriv: v.NonTriv, Fanout: v.Fanout}
	}
	if !wantErr && outsString(main.Ops[last].Outs) != outsString(wantOuts) {
		return c02Obs{Clause: "output-differs-from-isolated-replays", Op: last, Got: short(outsString(main.Ops[last].Outs), 700), Want: short(outsString(wantOuts), 700), NonTriv: v.NonTriv, Fanout: v.Fanout}
	}
	return v
}

func c02Candidates(c *C02Case) []*C02Case {
	var out []*C02Case
	clone := func() *C02Case {
		js, _ := json.Marshal(c)
		var n C02Case
		_ = json.Unmarshal(js, &n)
		return &n
	}
	if c.Debug != "" {
		n := clone()
		n.Debug = ""
		out = append(out, n)
	}
	for i := len(c.Ops) - 1; i >= 0; i-- {
		n := clone()
		removed := n.Ops[i]
		n.Ops = append(n.Ops[:i], n.Ops[i+1:]...)
		n.Chain = append(n.Chain[:i], n.Chain[i+1:]...)
		n.Layer = append(n.Layer[:i], n.Layer[i+1:]...)
		if c.FileRoute {
			// a layer file must keep at least one document, else the chain breaks
			cnt := 0
			for j := range c.Ops {
				if c.Chain[j] == c.Chain[i] && c.Layer[j] == c.Layer[i] {
					cnt++
				}
			}
			if cnt == 1 {
				continue
			}
		}
		for j := range n.Ops {
			var ps []string
			for _, p := range n.Ops[j].Parents {
				if p != removed.ID {
					ps = append(ps, p)
				}
			}
			n.Ops[j].Parents = ps
		}
		out = append(out, n)
	}
	if c.FileRoute {
		n := clone()
		n.FileRoute = false
		out = append(out, n)
	}
	if c.Sched.Mode != "Asc" {
		n := clone()
		n.Sched = wire.Sched{Mode: "Asc"}
		out = append(out, n)
	}
	for i, op := range c.Ops {
		for _, s := range gen.Simpler(op.Data.V) {
			n := clone()
			n.Ops[i].Data = &wire.Tree{V: s}
			out = append(out, n)
		}
	}
	return out
}

// RunC02 is the check for property C02.
func RunC02(e *Env) (int, error) {
	ev := e.Ev
	pool := libsim.NewPool(e.Tree.Worker("inst"), e.Workers, workerAS)
	defer pool.Close()
	world := filepath.Join(e.Tree.Root, "c02")
	n := e.N(60000, 600000)
	maxLayers := e.Pick(3, 5)

	exec := func(c *C02Case, run int64, tag string) (c02Obs, *wire.Result, error) {
		p := planC02(c)
		dir := "/"
		if c.FileRoute {
			files, ok := c02Files(c)
			if !ok {
				return c02Obs{}, nil, nil
			}
			dir = filepath.Join(world, fmt.Sprintf("%s-%d", tag, run))
			if err := writeFiles(dir, files, nil); err != nil {
				return c02Obs{}, nil, &libsim.InfraError{Msg: err.Error()}
			}
			defer os.RemoveAll(dir)
		}
		req := c02Request(c, p, run, dir)
		tasks, res, err := execTasks(pool, req)
		if err != nil {
			return c02Obs{}, nil, err
		}
		return judgeC02(c, p, tasks), res, nil
	}

	fn := func(run int64) harness.RunResult {
		if run%5 == 4 {
			return runC02EntryOnce(e, pool, run)
		}
		r := gen.New(e.Seed, "C02", run)
		var c *C02Case
		if run%25 == 7 {
			c = genC02SharedLists(r) // a hand-shaped family in one run of 25
			ev.Count("shaped.shared_scalar_lists", 1)
		} else {
			c = genC02(r, maxLayers)
		}
		o, res, err := exec(c, run, "run")
		if err != nil {
			return harness.RunResult{Err: err}
		}
		if res != nil {
			e.Log(run, c, o.Clause, o.Fanout, res.Probes.Sig, res.Probes.Steps)
		}
		key := ""
		if o.NonTriv {
			js, _ := json.Marshal(c.Ops)
			key = string(js)
			ev.Sample(c)
		}
		ev.Eval(key)
		ev.Count("fanout_applications", int64(o.Fanout))
		if o.Aliased {
			ev.Count("probe.aliasing_between_documents", 1)
		}
		if c.FileRoute {
			ev.Count("file_route_runs", 1)
		}
		if res != nil {
			addProbes(ev, res.Probes)
			ev.Distinct("schedules", fmt.Sprint(res.Probes.Sig))
		}
		if o.Clause == "" {
			return harness.RunResult{}
		}
		return harness.RunResult{Violation: &harness.Violation{Property: "C02", Check: "layers", Clause: o.Clause, Seed: e.Seed, Run: run, Case: c, Observed: o}}
	}

	finish := func(v *harness.Violation) (*harness.Violation, string) {
		if ec, ok := v.Case.(*C02EntryCase); ok {
			k := 0
			min, used := harness.Shrink(ec, c02EntryCandidates, func(cand *C02EntryCase) bool {
				k++
				o, _, err := execC02Entries(pool, cand, v.Run*1000+int64(k))
				return err == nil && o.Clause == v.Clause
			}, 200)
			o, _, _ := execC02Entries(pool, min, v.Run)
			v.Case, v.Observed, v.Shrunk, v.ShrinkExecs = min, o, true, used
			return v, ""
		}
		c := v.Case.(*C02Case)
		o, _, err := exec(c, v.Run, "confirm")
		if err != nil || o.Clause != v.Clause {
			v.Note = "did not reproduce on re-execution"
			return v, ""
		}
		k := 0
		min, used := harness.Shrink(c, c02Candidates, func(cand *C02Case) bool {
			k++
			o, _, err := exec(cand, v.Run*1000+int64(k), "shrink")
			return err == nil && o.Clause == v.Clause
		}, 400)
		o, _, _ = exec(min, v.Run, "final")
		v.Case, v.Observed, v.Shrunk, v.ShrinkExecs = min, o, true, used
		return v, ""
	}

	t0 := time.Now()
	viol, err := e.Drive(n, fn, finish)
	ev.Coverage["rule"] = fmt.Sprintf("base streams of 1-4 documents (+ optionally an unrelated second chain), then 1-%d further layers of 1-3 documents, with document-level $match (one / several / none / only non-lineage / $invert / null), biased to a fan-out layer (container introduced or replaced in several targets) followed by a layer editing that container; reserved attributes for patterns incl. 64-bit integers, lists and typed TOML date/time scalars; applied by successive MergeDocument calls or as layer files through MergeFileLayers; the parser under test logs (SetDebug / BKL_DEBUG) in 12% of the runs; oracle = reference targeting model + isolated replay of every state document alone in a fresh parser, compared after every call and at OutputDocuments; non-trivial = a child was applied to >= 2 documents and a later layer touched a key it wrote; distinct = canonical op list", maxLayers)
	ev.Coverage["loop_seconds"] = time.Since(t0).Seconds()
	ev.Assumptions = []string{
		"$match patterns of the workload look only at the reserved keys name/kind, which layers never edit (except a root-level $replace: true, which the model follows); this is what lets the targeting model be independent of merge results",
		"the state after a failed merge is not specified; a history is judged up to its first rejected layer",
		"the target-selection half is a pure function of the stream and is decided by reference-model comparison on the same runs (DESIGN.md 1.3)",
	}
	components(ev, e.Tree, []string{"package bkl (instrumented copy): Parser.MergeDocument/MergeFileLayers/Documents/OutputDocuments, real layer files"}, []string{})
	return viol, err
}

func init() {
	replayers["C02/layers"] = func(e *Env, raw []byte) (string, any, error) {
		var v struct {
			Clause string  `json:"clause"`
			Run    int64   `json:"run"`
			Case   C02Case `json:"case"`
		}
		if err := json.Unmarshal(raw, &v); err != nil {
			return "", nil, err
		}
		pool := libsim.NewPool(e.Tree.Worker("inst"), 1, workerAS)
		defer pool.Close()
		c := &v.Case
		p := planC02(c)
		dir := "/"
		if c.FileRoute {
			files, _ := c02Files(c)
			dir = filepath.Join(e.Tree.Root, "c02-replay")
			if err := writeFiles(dir, files, nil); err != nil {
				return "", nil, err
			}
		}
		tasks, _, err := execTasks(pool, c02Request(c, p, v.Run, dir))
		if err != nil {
			return "", nil, err
		}
		o := judgeC02(c, p, tasks)
		if o.Clause != v.Clause {
			return "", o, nil
		}
		return o.Clause, o, nil
	}
}

// genC02SharedLists is a hand-shaped family: one layer hands the *same*
// scalar-only list (of a length that leaves spare capacity in a slice grown
// by append: 3, 5, 6, 7 — and, as controls, 1, 2, 4, 8) to every target, by
// a route on which the patch's value may land by reference ($replace: true
// on the enclosing map or on the list, over a null / a scalar / nothing),
// and the following layers append a *different* value to that list in each
// target, one $match document per target. Documents that share the list's
// backing array then overwrite one another's appended element.
func genC02SharedLists(r *gen.Rand) *C02Case {
	c := &C02Case{}
	c.Sched = wire.Sched{Mode: "Hash", Seed: r.U64() >> 1, Coin: gen.PickAny(r, []float64{0, 0.5, 1})}
	c.FileRoute = r.Chance(0.5)
	add := func(op wire.Op, layer int) {
		c.Ops = append(c.Ops, op)
		c.Chain = append(c.Chain, 0)
		c.Layer = append(c.Layer, layer)
	}
	nBase := r.Range(2, 4)
	route := r.Intn(5)
	var prev []string
	for i := 0; i < nBase; i++ {
		doc := map[string]any{"name": fmt.Sprintf("n%d", i), "kind": gen.PickAny(r, c02Kinds)}
		switch route {
		case 0: // replaced as a whole below
			doc["cfg"] = map[string]any{"tags": []any{fmt.Sprintf("old%d", i)}, "keep": i}
		case 1: // a null to be overridden
			doc["cfg"] = map[string]any{"tags": nil}
		case 2: // a scalar to be overridden
			doc["cfg"] = map[string]any{"tags": "none"}
		case 3: // nothing there yet
		default: // a list replaced by a list carrying "$replace"
			doc["cfg"] = map[string]any{"tags": []any{"a", "b"}}
		}
		id := fmt.Sprintf("L0|doc%d", i)
		add(wire.Op{Op: "MergeDocument", ID: id, Data: &wire.Tree{V: doc}}, 0)
		prev = append(prev, id)
	}
	n := gen.PickAny(r, []int{3, 3, 5, 6, 7, 1, 2, 4, 8})
	list := make([]any, 0, n+1)
	for k := 0; k < n; k++ {
		if r.Chance(0.3) {
			list = append(list, k)
		} else {
			list = append(list, fmt.Sprintf("t%d", k))
		}
	}
	var fan map[string]any
	switch route {
	case 0:
		fan = map[string]any{"cfg": map[string]any{"$replace": true, "tags": list}}
	case 4:
		fan = map[string]any{"cfg": map[string]any{"tags": append(append([]any{}, list...), "$replace")}}
	default:
		fan = map[string]any{"cfg": map[string]any{"tags": list}}
	}
	add(wire.Op{Op: "MergeDocument", ID: "L1|doc0", Parents: append([]string{}, prev...), Data: &wire.Tree{V: fan}}, 1)
	prev = []string{"L1|doc0"}
	nLayers := 1 + r.Range(1, 2)
	for l := 2; l <= nLayers; l++ {
		var ids []string
		order := make([]int, nBase)
		for i := range order {
			order[i] = i
		}
		gen.Shuffle(r, order)
		for d, i := range order {
			if d > 0 && r.Chance(0.15) {
				continue // not every target gets an addition
			}
			patch := map[string]any{"$match": map[string]any{"name": fmt.Sprintf("n%d", i)}}
			patch["cfg"] = map[string]any{"tags": []any{fmt.Sprintf("add%d_%d", l, i)}}
			id := fmt.Sprintf("L%d|doc%d", l, d)
			add(wire.Op{Op: "MergeDocument", ID: id, Parents: append([]string{}, prev...), Data: &wire.Tree{V: patch}}, l)
			ids = append(ids, id)
		}
		prev = ids
	}
	for l := 0; l <= nLayers; l++ {
		c.Exts = append(c.Exts, r.Pick("yaml", "json", "yaml", "yml"))
	}
	return c
}
