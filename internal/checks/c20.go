package checks

import (
	"encoding/json"
	"fmt"
	"os"
	"path/filepath"
	"strings"
	"time"

	"verif/internal/gen"
	"verif/internal/harness"
	"verif/internal/libsim"
	"verif/internal/model"
	"verif/internal/procsim"
	"wire"
)

// C20Case is one wrapper invocation: a world of layer and non-layer files, an
// argument vector, and at most one fault.
type C20Case struct {
	World   procsim.World `json:"world"`
	Wrapper string        `json:"wrapper"` // stubb (bklb via symlink) | kubectl-bkl
	// Rival: the argument vector of a second invocation of the same wrapper
	// (same name, same TMPDIR) that runs to completion — and fails — while the
	// first one's wrapped program has started but not yet read its files
	Rival   []string   `json:"rival_invocation,omitempty"`
	Args    []string   `json:"args"`
	Fault   string     `json:"fault,omitempty"`
	FaultOn string     `json:"fault_on,omitempty"`
	Sched   wire.Sched `json:"schedule"`
}

const c20Dir = "w"

func genC20(r *gen.Rand) *C20Case {
	c := &C20Case{Wrapper: r.Pick("stubb", "stubb", "kubectl-bkl")}
	c.Sched = wire.Sched{Mode: "Hash", Seed: r.U64() >> 1, Coin: 0.5}
	w := &c.World
	w.Dirs = []string{c20Dir, c20Dir + "/d"}
	tc := c02Tree(true)
	child := gen.ChildCfg{Tree: tc, Edits: 1}
	put := func(path string, docs ...any) {
		w.Files = append(w.Files, procsim.File{Path: filepath.Join(c20Dir, path), Docs: treeDocs(docs...)})
	}
	raw := func(path, s string) {
		w.Files = append(w.Files, procsim.File{Path: filepath.Join(c20Dir, path), Raw: &s})
	}
	base := tc.Map(r, 2)
	base["kind"] = "base"
	put("a.yaml", base)
	ch := child.Child(r, wire.Clone(base))
	ch["layer"] = "b"
	put("a.b.yaml", ch)
	put("c.json", map[string]any{"c": 1, "list": []any{1, 2}})
	put("d/e.yaml", map[string]any{"e": true}, map[string]any{"second": 2})
	put("t.toml", map[string]any{"t": map[string]any{"x": 1}})
	put("bad.yaml", map[string]any{"must": "$required"})
	put("bad2.json", map[string]any{"r": "$merge:no.such"})
	put("bad3.yaml", map[string]any{"fine": 1}, map[string]any{"$match": nil, "second": "$required"})
	bigDoc := map[string]any{"k": 1}
	tc.Bulk(r, bigDoc)
	bigDoc["pad2"] = strings.Repeat("0123456789abcdef", r.Range(300, 5000)) // larger than any write buffer
	put("big.yaml", bigDoc)
	// the same base name in different directories
	w.Dirs = append(w.Dirs, c20Dir+"/d2")
	put("d/c.json", map[string]any{"c": "in-d", "n": 2})
	put("d2/e.yaml", map[string]any{"e": "in-d2"})
	put("d2/a.b.yaml", map[string]any{"standalone": true, "$parent": false})
	// unusual but legal file names
	put("x,y.yaml", map[string]any{"comma": 1})
	put("sp ace.yaml", map[string]any{"space": 1})
	put("uni-é.json", map[string]any{"unicode": 1})
	put("eq=ual.yaml", map[string]any{"eq": 1})
	put("semi;colon.json", map[string]any{"semi": 1})
	put("-dash.yaml", map[string]any{"dash": 1})
	// names holding what a formatting or pattern function would interpret
	put("job-%d.yaml", map[string]any{"job": "%d", "shards": 16})
	put("100%.json", map[string]any{"percent": 100})
	put("tmpl-{{x}}.yaml", map[string]any{"braces": 1})
	put("star*.yaml", map[string]any{"star": 1})
	put("p.yaml", map[string]any{"base": true})
	put("p.q.yaml", map[string]any{"top": 1}) // its parent p.yaml is the target of some faults
	// a file argument that is a symbolic link to a layer (it inherits from its target's name)
	w.Links = append(w.Links, procsim.Link{Path: c20Dir + "/lnk.yaml", Target: "a.b.yaml"}, procsim.Link{Path: c20Dir + "/d/up.json", Target: "../c.json"})
	// links into another directory to layers with a relative $parent: the
	// parent is looked up next to the name the layer was reached by
	put("withp.yaml", map[string]any{"$parent": "pbase", "v": 1})
	put("pbase.yaml", map[string]any{"where": "top"})
	put("d/pbase.yaml", map[string]any{"where": "in-d"})
	put("withq.yaml", map[string]any{"$parent": "qbase", "v": 2})
	put("qbase.yaml", map[string]any{"where": "top-only"})
	w.Links = append(w.Links, procsim.Link{Path: c20Dir + "/d/lp.yaml", Target: "../withp.yaml"}, procsim.Link{Path: c20Dir + "/d2/lq.yaml", Target: "../withq.yaml"},
		procsim.Link{Path: c20Dir + "/dlink", Target: "d"})
	raw("broken.yaml", "a: [1, 2\n")
	raw("notes.txt", "a.yaml\n")
	raw("x.ini", "[x]\n")
	raw("plain", "words\n")
	// argument vector
	good := []string{"a.yaml", "a.b.yaml", "c.json", "d/e.yaml", "t.toml", "./a.b.yaml", "d/../c.json", "./d/e.yaml", "p.q.yaml", "p.q.json", "big.yaml", "big.json",
		"d/c.json", "d2/e.yaml", "d2/e.json", "d/c.yaml", "d2/a.b.yaml", "x,y.yaml", "x,y.json", "sp ace.yaml", "uni-é.json", "uni-é.yaml", "eq=ual.yaml", "semi;colon.json", "-dash.yaml", "lnk.yaml", "lnk.json", "d/up.json", "d/up.yaml", "d/lp.yaml", "d/lp.json", "withp.yaml", "dlink/e.yaml", "dlink/lp.yaml",
		"job-%d.yaml", "job-%d.json", "100%.json", "100%.yaml", "tmpl-{{x}}.yaml", "star*.yaml", "star*.json"}
	virtual := []string{"a.b.json", "c.yaml", "a.toml", "d/e.json", "c.yml", "a.b.jsonl"}
	failing := []string{"bad.yaml", "bad2.json", "broken.yaml", "bad.json", "bad3.yaml", "bad3.json", "d2/lq.yaml"}
	pass := []string{"apply", "get", "-f", "-v", "--dry-run", "--opt=value", "--file=a.b.yaml", "-o=c.json", "notes.txt", "x.ini", "plain",
		"nosuch.yaml", "nosuch", "a.b", "a.yaml.bak", "", "--", "-", "a.b.yaml ", "d", "d/", "zz/a.yaml", "a.xml", "--filename=d/e.yaml", "-f=a.yaml",
		"notes.json", "plain.yaml", "x.toml", "./notes.txt", "d/../notes.txt", "a=b", "--set", "k=v.yaml", "e.yaml", "-o", "yaml", ".yaml", "a..yaml",
		"a.yaml,c.json", "a.b.yaml,notes.txt,c.json", "a.yaml:c.json", "a.yaml c.json", "a.yaml;c.json", "c.json=a.yaml", "@a.yaml", "file://a.yaml", "a.yaml,", ",a.yaml", "a.yaml\tc.json", "a.yaml\n"}
	n := r.Range(0, 8)
	failP := gen.PickAny(r, []float64{0, 0, 0.08, 0.25})
	goodP := 0.3
	if r.Chance(0.06) {
		// well beyond the usual handful: `kubectl apply -f a -f b -f c ...`
		// over a directory's worth of files (more than any batch or pool size)
		n = r.Range(9, 40)
		goodP = 0.7
		failP = gen.PickAny(r, []float64{0, 0, 0.03})
	}
	for i := 0; i < n; i++ {
		switch {
		case r.Chance(failP):
			c.Args = append(c.Args, gen.PickAny(r, failing))
		case r.Chance(goodP):
			c.Args = append(c.Args, gen.PickAny(r, good))
		case r.Chance(0.2):
			c.Args = append(c.Args, gen.PickAny(r, virtual))
		default:
			c.Args = append(c.Args, gen.PickAny(r, pass))
		}
	}
	if r.Chance(0.06) {
		for k := 0; k < r.Range(1, 3); k++ {
			c.Rival = append(c.Rival, gen.PickAny(r, good))
		}
		c.Rival = append(c.Rival, gen.PickAny(r, failing))
		if r.Chance(0.5) {
			c.Rival = append(c.Rival, gen.PickAny(r, good))
		}
		return c
	}
	// at most one fault, on a layer of one file argument
	if r.Chance(0.3) {
		switch r.Intn(6) {
		case 5:
			c.Fault, c.FaultOn = "directory", r.Pick("a.yaml", "p.yaml")
		case 0:
			c.Fault, c.FaultOn = "delete", r.Pick("a.yaml", "p.yaml")
		case 1:
			c.Fault, c.FaultOn = "corrupt", r.Pick("a.yaml", "a.b.yaml", "c.json", "p.yaml")
		case 2:
			c.Fault, c.FaultOn = r.Pick("openat-EIO", "openat-EACCES", "read-EIO"), r.Pick("a.yaml", "a.b.yaml", "c.json", "d/e.yaml", "p.yaml")
		case 3:
			c.Fault = "tmpdir-missing"
		default:
			c.Fault = "tmpdir-is-file"
		}
	}
	return c
}

// c20Resolvable is the model's answer to "does this argument name a
// bkl-resolvable file": supported extension and some file with the same base
// name under any supported extension.
func c20Resolvable(cwd, arg string) bool {
	res := &model.Resolver{}
	p := arg
	if !filepath.IsAbs(p) {
		p = filepath.Join(cwd, arg)
	}
	// filepath.Join cleans; the tool works on the argument as given, which
	// differs only for spellings the generator does not emit as resolvable
	if strings.HasSuffix(arg, "/") || arg == "" {
		return false
	}
	_, _, err := res.Input(p)
	return err == nil
}

type c20Obs struct {
	Clause   string           `json:"clause"`
	Detail   string           `json:"detail,omitempty"`
	Outcome  *procsim.Outcome `json:"outcome,omitempty"`
	Recorded []string         `json:"recorded_argv,omitempty"`
	Ran      bool             `json:"wrapped_program_ran"`
	// stats
	Resolvable int  `json:"-"`
	RefFailed  bool `json:"-"`
	Fired      bool `json:"-"`
	RivalRan   bool `json:"rival_invocation_ran,omitempty"`
}

func judgeC20(e *Env, c *C20Case, tag string, run int64) (*c20Obs, error) {
	obs := &c20Obs{}
	root := filepath.Join(e.Tree.Root, "worlds", fmt.Sprintf("C20-%s-%d", tag, run))
	_ = os.RemoveAll(root)
	defer os.RemoveAll(root)
	if err := c.World.Materialise(root); err != nil {
		return nil, &libsim.InfraError{Msg: err.Error()}
	}
	for _, d := range []string{"bin", "tmp", "rec"} {
		_ = os.MkdirAll(filepath.Join(root, d), 0o755)
	}
	stub := filepath.Join(e.Tree.Bin, "stub")
	for _, l := range []string{"stub", "kubectl"} {
		if err := os.Symlink(stub, filepath.Join(root, "bin", l)); err != nil {
			return nil, &libsim.InfraError{Msg: err.Error()}
		}
	}
	cwd := filepath.Join(root, c20Dir)
	// the fault is applied before the reference evaluations: the reference
	// sees the same disk as the wrapper
	inv := &procsim.Invocation{Kind: "inst", Args: c.Args, Cwd: c20Dir, Env: map[string]string{"VERIF_STUB_DIR": filepath.Join(root, "rec")}, Argv0: c.Wrapper}
	s := c.Sched
	inv.Sched = &s
	inv.StepBudget = ProcStepBudget
	switch c.Fault {
	case "delete":
		_ = os.Remove(filepath.Join(cwd, c.FaultOn))
	case "corrupt":
		_ = os.WriteFile(filepath.Join(cwd, c.FaultOn), []byte("{ \"a\": [ 1,"), 0o644)
	case "directory":
		_ = os.Remove(filepath.Join(cwd, c.FaultOn))
		_ = os.Mkdir(filepath.Join(cwd, c.FaultOn), 0o755)
	case "openat-EIO", "openat-EACCES":
		inv.Injects = append(inv.Injects, procsim.Inject{Syscall: "openat", Path: filepath.Join(c20Dir, c.FaultOn), Errno: strings.TrimPrefix(c.Fault, "openat-")})
	case "read-EIO":
		inv.Injects = append(inv.Injects, procsim.Inject{Syscall: "read", Path: filepath.Join(c20Dir, c.FaultOn), Errno: "EIO", When: "1"})
	case "tmpdir-missing":
		_ = os.RemoveAll(filepath.Join(root, "tmp"))
	case "tmpdir-is-file":
		_ = os.RemoveAll(filepath.Join(root, "tmp"))
		_ = os.WriteFile(filepath.Join(root, "tmp"), []byte("x"), 0o644)
	}
	// reference: per argument, pass-through or the stock bkl's output
	type ref struct {
		resolvable bool
		ok         bool
		bytes      string
	}
	refs := make([]ref, len(c.Args))
	anyFail := false
	for i, a := range c.Args {
		if !c20Resolvable(cwd, a) {
			continue
		}
		refs[i].resolvable = true
		obs.Resolvable++
		ri := &procsim.Invocation{Kind: "stock", Args: []string{"--", a}, Cwd: c20Dir}
		if strings.HasPrefix(c.Fault, "openat-") || c.Fault == "read-EIO" {
			ri.Injects = inv.Injects
		}
		o, err := runInv(e, root, "bkl", ri)
		if err != nil {
			return nil, err
		}
		if o.Crash != "" || o.StepsOut || o.CPUOut || o.Blocked {
			return obs, nil // C08's subject
		}
		if o.Status == 0 {
			refs[i].ok, refs[i].bytes = true, o.Stdout
		} else {
			anyFail = true
		}
	}
	obs.RefFailed = anyFail
	tool := "bklb"
	if c.Wrapper == "kubectl-bkl" {
		tool = "kubectl-bkl"
	}
	var out *procsim.Outcome
	var err error
	if len(c.Rival) > 0 {
		// two parties: A's wrapped program records its argv and then waits at
		// the gate; B (same wrapper name, same TMPDIR) runs to completion in
		// between; then the gate opens and A's program reads its files
		gate := filepath.Join(root, "gate")
		invA := *inv
		invA.Env = map[string]string{"VERIF_STUB_DIR": filepath.Join(root, "rec"), "VERIF_STUB_GATE": gate}
		type res struct {
			o   *procsim.Outcome
			err error
		}
		ch := make(chan res, 1)
		go func() {
			o, err := runInv(e, root, tool, &invA)
			ch <- res{o, err}
		}()
		started := false
		var early *res
		for k := 0; k < 4000 && !started && early == nil; k++ {
			select {
			case r := <-ch:
				early = &r
			default:
				if _, serr := os.Stat(filepath.Join(root, "rec", "argv")); serr == nil {
					started = true
				} else {
					time.Sleep(5 * time.Millisecond)
				}
			}
		}
		if started {
			_ = os.MkdirAll(filepath.Join(root, "recB"), 0o755)
			invB := *inv
			invB.Args = c.Rival
			invB.Env = map[string]string{"VERIF_STUB_DIR": filepath.Join(root, "recB")}
			if _, berr := runInv(e, root, tool, &invB); berr != nil {
				_ = os.WriteFile(gate, nil, 0o644)
				<-ch
				return nil, berr
			}
			obs.RivalRan = true
		}
		_ = os.WriteFile(gate, nil, 0o644)
		if early == nil {
			r := <-ch
			early = &r
		}
		out, err = early.o, early.err
	} else {
		out, err = runInv(e, root, tool, inv)
	}
	if err != nil {
		return nil, err
	}
	obs.Outcome = trimOutcome(out)
	obs.Fired = c.Fault != "" && (out.Injected > 0 || !(strings.HasPrefix(c.Fault, "openat") || c.Fault == "read-EIO"))
	if out.Crash != "" || out.StepsOut || out.CPUOut || out.Blocked {
		return obs, nil
	}
	rec := filepath.Join(root, "rec")
	argvRaw, rerr := os.ReadFile(filepath.Join(rec, "argv"))
	obs.Ran = rerr == nil
	fail := func(clause, detail string) (*c20Obs, error) {
		obs.Clause, obs.Detail = clause, detail
		return obs, nil
	}
	tmpFault := strings.HasPrefix(c.Fault, "tmpdir")
	if anyFail {
		if obs.Ran {
			return fail("wrapped-program-ran-although-evaluation-fails", "")
		}
		if out.Status == 0 {
			return fail("exit-0-although-evaluation-fails", "")
		}
		return obs, nil
	}
	if !obs.Ran {
		if tmpFault && obs.Resolvable > 0 {
			return obs, nil // allowed: not run at all
		}
		return fail("wrapped-program-not-run", fmt.Sprintf("status %d stderr %q", out.Status, short(out.Stderr, 300)))
	}
	argv := strings.Split(string(argvRaw), "\x00")
	obs.Recorded = argv
	wantName := "stub"
	if c.Wrapper == "kubectl-bkl" {
		wantName = "kubectl"
	}
	if len(argv) != len(c.Args)+1 {
		return fail("argument-count-changed", fmt.Sprintf("got %d want %d", len(argv)-1, len(c.Args)))
	}
	if argv[0] != wantName {
		return fail("wrong-argv0", fmt.Sprintf("got %q want %q", argv[0], wantName))
	}
	for i, a := range c.Args {
		got := argv[i+1]
		if !refs[i].resolvable {
			if got != a {
				return fail("non-file-argument-changed", fmt.Sprintf("position %d: got %q want %q", i, got, a))
			}
			continue
		}
		if got == a {
			return fail("file-argument-not-replaced", fmt.Sprintf("position %d: %q", i, a))
		}
		b, err := os.ReadFile(filepath.Join(rec, fmt.Sprintf("file%d", i+1)))
		if err != nil {
			return fail("replacement-is-not-a-regular-file", fmt.Sprintf("position %d: %q", i, got))
		}
		if string(b) != refs[i].bytes {
			return fail("replacement-content-differs-from-bkl", fmt.Sprintf("position %d (%s): got %q want %q", i, a, short(string(b), 300), short(refs[i].bytes, 300)))
		}
	}
	return obs, nil
}

func c20Candidates(c *C20Case) []*C20Case {
	var out []*C20Case
	clone := func() *C20Case {
		js, _ := json.Marshal(c)
		var n C20Case
		_ = json.Unmarshal(js, &n)
		return &n
	}
	for i := range c.Args {
		n := clone()
		n.Args = append(n.Args[:i], n.Args[i+1:]...)
		out = append(out, n)
	}
	if c.Fault != "" {
		n := clone()
		n.Fault, n.FaultOn = "", ""
		out = append(out, n)
	}
	if c.Sched.Mode != "Asc" {
		n := clone()
		n.Sched = wire.Sched{Mode: "Asc"}
		out = append(out, n)
	}
	return out
}

// RunC20 is the check for property C20.
func RunC20(e *Env) (int, error) {
	ev := e.Ev
	n := e.N(2500, 60000)
	fn := func(run int64) harness.RunResult {
		r := gen.New(e.Seed, "C20", run)
		c := genC20(r)
		obs, err := judgeC20(e, c, "run", run)
		if err != nil {
			return harness.RunResult{Err: err}
		}
		if obs.Outcome != nil {
			// stderr may name a temp file (random suffix): not part of the log
			e.Log(run, c, obs.Clause, obs.Ran, len(obs.Recorded), obs.Outcome.Status)
		}
		key := ""
		if obs.Resolvable > 0 {
			js, _ := json.Marshal(c)
			key = string(js)
			ev.Sample(map[string]any{"wrapper": c.Wrapper, "args": c.Args, "fault": c.Fault, "ran": obs.Ran, "recorded": obs.Recorded})
		}
		ev.Eval(key)
		ev.Count("wrapper."+c.Wrapper, 1)
		ev.Count("resolvable_arguments", int64(obs.Resolvable))
		if obs.RivalRan {
			ev.Count("interleaved_rival_invocations", 1)
		}
		if obs.RefFailed {
			ev.Count("runs_with_failing_file_argument", 1)
		}
		if obs.Ran {
			ev.Count("wrapped_program_ran", 1)
		}
		if c.Fault != "" {
			if obs.Fired {
				ev.Count("fault_fired."+c.Fault, 1)
			} else {
				ev.Count("fault_not_reached."+c.Fault, 1)
			}
		}
		if obs.Clause == "" {
			return harness.RunResult{}
		}
		return harness.RunResult{Violation: &harness.Violation{Property: "C20", Check: "wrapper", Clause: obs.Clause, Seed: e.Seed, Run: run, Case: c, Observed: obs}}
	}
	finish := func(v *harness.Violation) (*harness.Violation, string) {
		c := v.Case.(*C20Case)
		o, err := judgeC20(e, c, "confirm", v.Run)
		if err != nil || o.Clause != v.Clause {
			v.Note = "did not reproduce on re-execution"
			return v, ""
		}
		k := 0
		min, used := harness.Shrink(c, c20Candidates, func(cand *C20Case) bool {
			k++
			o, err := judgeC20(e, cand, "shrink", v.Run*1000+int64(k))
			return err == nil && o.Clause == v.Clause
		}, 150)
		o, _ = judgeC20(e, min, "final", v.Run)
		v.Case, v.Shrunk, v.ShrinkExecs = min, true, used
		if o != nil {
			v.Observed = o
		}
		return v, ""
	}
	t0 := time.Now()
	viol, err := e.Drive(n, fn, finish)
	ev.Coverage["rule"] = "each run builds a directory with a layer chain (a, a.b), single layers in json/yaml/toml and in a sub-directory, layers whose evaluation fails ($required, dangling reference, broken syntax), non-bkl files and unsupported extensions; draws an argument vector of 0-8 arguments (flags, --opt=value incl. values that look like layer names, words, existing layers, virtual names, unsupported extensions, failing layers, odd spellings) and at most one fault (layer deleted / corrupted / openat EIO, TMPDIR missing / a file), or — in 6% of the runs — a rival: a second, failing invocation of the same wrapper under the same TMPDIR that runs to completion while the first one's wrapped program has started but not yet read its files (the stand-in waits at a gate the simulation opens); runs bklb through the symlink stubb or kubectl-bkl with a recording stand-in as the wrapped program on PATH; oracle = argc, order and argv[0] preserved; non-resolvable arguments byte-identical; resolvable ones replaced by a regular file whose bytes equal the stock `bkl <arg>` stdout in the same world; if any reference evaluation fails the stand-in must not have run and the status is non-zero; non-trivial = at least one resolvable argument; distinct = canonical case"
	ev.Coverage["loop_seconds"] = time.Since(t0).Seconds()
	ev.Assumptions = []string{
		"temp file names are not compared",
		"under a TMPDIR fault the wrapped program may either not run or run with complete files",
		"the argument-order half is a pure function of argv and the disk and is decided by reference comparison on the same runs (DESIGN.md 1.3)",
	}
	components(ev, e.Tree, []string{"bklb and kubectl-bkl binaries (instrumented), stock bkl as per-argument reference, real files, exec of the wrapped program"}, []string{"the wrapped program (kubectl / the tool named by the symlink) is a recording stand-in"})
	return viol, err
}

func init() {
	replayers["C20/wrapper"] = func(e *Env, raw []byte) (string, any, error) {
		var v struct {
			Clause string  `json:"clause"`
			Run    int64   `json:"run"`
			Case   C20Case `json:"case"`
		}
		if err := json.Unmarshal(raw, &v); err != nil {
			return "", nil, err
		}
		o, err := judgeC20(e, &v.Case, "replay", v.Run)
		if err != nil {
			return "", nil, err
		}
		if o.Clause != v.Clause {
			return "", o, nil
		}
		return o.Clause, o, nil
	}
}
