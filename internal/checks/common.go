// Package checks implements one simulated check per claimed property.
package checks

import (
	"encoding/json"
	"fmt"
	"os"
	"path/filepath"
	"regexp"
	"sort"
	"strconv"
	"strings"
	"sync"

	"verif/internal/build"
	"verif/internal/gen"
	"verif/internal/harness"
	"verif/internal/libsim"
	"wire"
)

// Env is what a check gets: context, built scratch world.
type Env struct {
	*harness.Ctx
	Tree *build.Tree

	logMu sync.Mutex
	log   map[int64][]string
}

var logStamp = regexp.MustCompile(`\d{4}/\d{2}/\d{2} \d{2}:\d{2}:\d{2} `)
var tmpName = regexp.MustCompile(`/tmp/([A-Za-z_-]+)\.\d+\.`)

// N returns the number of runs for the tier (VERIF_RUNS overrides it; used by
// the determinism self-test).
func (e *Env) N(q, t int) int64 {
	if s := os.Getenv("VERIF_RUNS"); s != "" {
		if n, err := strconv.ParseInt(s, 10, 64); err == nil && n > 0 {
			return n
		}
	}
	return int64(e.Pick(q, t))
}

// Log records one event-log entry of a run (only when VERIF_EVENTLOG is set):
// the determinism self-test diffs these logs between processes, worker counts
// and GOMAXPROCS values. Scratch paths are normalised.
func (e *Env) Log(run int64, parts ...any) {
	if os.Getenv("VERIF_EVENTLOG") == "" {
		return
	}
	js, _ := json.Marshal(parts)
	line := strings.ReplaceAll(string(js), e.Tree.Root, "@ROOT@")
	line = strings.ReplaceAll(line, strings.TrimPrefix(e.Tree.Root, "/"), "@ROOT@") // os.Root reports paths relative to "/"
	line = tmpName.ReplaceAllString(line, "/tmp/$1.@N@.")                           // the wrappers name their temp files at random
	line = logStamp.ReplaceAllString(line, "@TIME@ ")                               // bkl -v logs carry wall-clock timestamps
	e.logMu.Lock()
	defer e.logMu.Unlock()
	if e.log == nil {
		e.log = map[int64][]string{}
	}
	if os.Getenv("VERIF_EVENTLOG_RAW") != "" {
		e.log[run] = append(e.log[run], line) // debugging aid: the entries themselves
		return
	}
	e.log[run] = append(e.log[run], harness.Hash(line))
}

// FlushLog writes the event log, ordered by run.
func (e *Env) FlushLog() error {
	path := os.Getenv("VERIF_EVENTLOG")
	if path == "" {
		return nil
	}
	e.logMu.Lock()
	defer e.logMu.Unlock()
	runs := make([]int64, 0, len(e.log))
	for r := range e.log {
		runs = append(runs, r)
	}
	sort.Slice(runs, func(i, j int) bool { return runs[i] < runs[j] })
	var b strings.Builder
	for _, r := range runs {
		fmt.Fprintf(&b, "%d %s\n", r, strings.Join(e.log[r], " "))
	}
	return os.WriteFile(path, []byte(b.String()), 0o644)
}

const workerAS = 3 << 30 // address-space limit of library workers (bytes)

// StepBudget is the per-task step budget of in-process runs: far above any
// legitimate evaluation of generated inputs (the measured maximum is in the
// evidence), far below what a runaway recursion needs to overflow the stack.
const StepBudget = 150_000

var stdEnv = map[string]string{"VERIF_A": "va", "VERIF_B": "3"}

func isMergeOp(op string) bool {
	return op == "MergeDocument" || op == "MergeFile" || op == "MergeFileLayers"
}

func isOutputOp(op string) bool {
	return op == "Output" || op == "OutputDocuments" || op == "OutputToWriter" || op == "OutputToFile"
}

// taskOutcome is a task's results; if the worker died in one of its ops,
// CrashAt is that op's index (results exist for the ops before it).
type taskOutcome struct {
	Ops     []wire.OpResult
	CrashAt int    // -1: no crash
	Crash   string // kind of crash
}

// execTasks runs a request. If the worker dies, the op in flight is known
// from the worker's progress lines; that task is truncated just before the
// fatal op and the request is run again, until it completes. The fatal op is
// reported with outcome "crash", the ops after it with "skipped".
func execTasks(pool *libsim.Pool, req *wire.Request) ([]taskOutcome, *wire.Result, error) {
	out := make([]taskOutcome, len(req.Tasks))
	for i := range out {
		out[i].CrashAt = -1
	}
	cur := *req
	cur.Tasks = append([]wire.TaskSpec{}, req.Tasks...)
	var first *wire.Result
	for attempt := 0; attempt <= len(req.Tasks)+1; attempt++ {
		res, err := pool.Exec(&cur)
		if err != nil {
			return nil, nil, err
		}
		if first == nil {
			first = res
		}
		if !res.Crash {
			for i := range req.Tasks {
				out[i].Ops = res.Tasks[i]
			}
			if first.Crash {
				first.Probes = res.Probes
			}
			return out, first, nil
		}
		t, o := res.CrashTask, res.CrashOp
		if t < 0 || t >= len(cur.Tasks) || o < 0 || o >= len(cur.Tasks[t].Ops) || cur.Coop != nil || cur.Real {
			return nil, nil, &libsim.InfraError{Msg: fmt.Sprintf("worker died outside an op (task %d op %d): %s", t, o, res.Stderr)}
		}
		out[t].CrashAt = o
		out[t].Crash = libsim.CrashKind(res.Stderr)
		tr := cur.Tasks[t]
		tr.Ops = append([]wire.Op{}, cur.Tasks[t].Ops[:o]...)
		cur.Tasks[t] = tr
	}
	return nil, nil, &libsim.InfraError{Msg: "worker keeps dying"}
}

// outcomeOf returns the outcome class of op i of a task.
func (t taskOutcome) outcomeOf(i int) string {
	if t.CrashAt >= 0 {
		if i == t.CrashAt {
			return "crash"
		}
		if i > t.CrashAt {
			return "skipped"
		}
	}
	if i >= len(t.Ops) {
		return "missing"
	}
	return t.Ops[i].Outcome
}

func snapString(ds []wire.DocSnap) string {
	if len(ds) == 0 {
		return "[]"
	}
	js, _ := json.Marshal(ds)
	return string(js)
}

func outsString(ts []wire.Tree) string {
	js, _ := json.Marshal(ts)
	return string(js)
}

func bytesOf(r wire.OpResult) string {
	if r.Bytes == nil {
		return "<nil>"
	}
	return *r.Bytes
}

// writeFiles materialises a run's files under dir.
func writeFiles(dir string, files map[string]string, dirs []string) error {
	if err := os.MkdirAll(dir, 0o755); err != nil {
		return err
	}
	for _, d := range dirs {
		if err := os.MkdirAll(filepath.Join(dir, d), 0o755); err != nil {
			return err
		}
	}
	for _, name := range gen.SortedKeys(files) {
		p := filepath.Join(dir, name)
		if err := os.MkdirAll(filepath.Dir(p), 0o755); err != nil {
			return err
		}
		if err := os.WriteFile(p, []byte(files[name]), 0o644); err != nil {
			return err
		}
	}
	return nil
}

func sortedCopy(xs []string) []string {
	c := append([]string{}, xs...)
	sort.Strings(c)
	return c
}

func addProbes(ev *harness.Evidence, p wire.Probes) {
	ev.Count("probe.ranges", p.Ranges)
	ev.Count("probe.ranges_multi_key", p.RangesMulti)
	ev.Count("probe.created_during_range_seen", p.CreatedSeen)
	ev.Count("probe.created_produced", p.CreatedProduced)
	ev.Count("probe.created_skipped", p.CreatedSkipped)
	ev.Count("probe.deleted_before_reached", p.DeletedSkipped)
	ev.Count("probe.task_switches", p.Switches)
	ev.Count("probe.steps", p.Steps)
	if p.MaxSteps <= StepBudget {
		ev.Max("max_steps_per_task_within_budget", p.MaxSteps)
	} else {
		ev.Count("tasks_stopped_by_step_budget", 1)
	}
}

func components(ev *harness.Evidence, t *build.Tree, real, stub []string) {
	ev.Coverage["components"] = map[string]any{"real": real, "stub": stub}
	ev.Coverage["instrumented"] = t.Instrumented
	if t.InstError != "" {
		ev.Coverage["instrumentation_error"] = t.InstError
	}
	if t.Sites != nil {
		ev.Coverage["seam_sites"] = map[string]int{"map_ranges": t.Sites.RangeSites, "yields": t.Sites.YieldSites}
	}
	ev.Coverage["build_seconds"] = t.BuildSeconds
}

func short(s string, n int) string {
	if len(s) <= n {
		return s
	}
	return s[:n] + fmt.Sprintf("...(%d bytes)", len(s))
}

func hasPrefixAny(s string, ps ...string) bool {
	for _, p := range ps {
		if strings.HasPrefix(s, p) {
			return true
		}
	}
	return false
}
