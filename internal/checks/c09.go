package checks

import (
	"encoding/json"
	"fmt"
	"os"
	"path/filepath"
	"strings"
	"time"

	"verif/internal/gen"
	"verif/internal/harness"
	"verif/internal/libsim"
	"wire"
)

// C09Case is one evaluation (merge calls followed by output calls) plus, for
// the interleaving sub-check, the other evaluations it shares a process with.
type C09Case struct {
	Files   map[string]string `json:"files,omitempty"`
	Tasks   [][]wire.Op       `json:"tasks"` // task 0 is the evaluation under test
	Planted []string          `json:"planted,omitempty"`
	// the schedule pair (sub-check 2) or the interleaving (sub-check 3) that differ
	Ref    wire.Sched `json:"reference_schedule"`
	Other  wire.Sched `json:"other_schedule"`
	Coop   *wire.Coop `json:"interleaving,omitempty"`
	Real   bool       `json:"real_goroutines,omitempty"`
	Fresh  bool       `json:"fresh_vs_long_lived,omitempty"`
	Heavy  bool       `json:"heavy_concurrent,omitempty"`
	Copies int        `json:"copies,omitempty"`
}

func genC09Eval(r *gen.Rand, files map[string]string) ([]wire.Op, []string) {
	cfg := gen.SwarmProgCfg(r)
	if r.Chance(0.5) {
		cfg = gen.AllOn(r)
	}
	cfg.PBad = gen.PickAny(r, []float64{0, 0, 0, 0.05})
	cfg.PSelf = gen.PickAny(r, []float64{0, 0, 0.1, 0.3})
	cfg.Escape = cfg.Escape || r.Chance(0.3)
	// (no shared sub-objects here: merging in place into a caller-built DAG is
	// order-dependent by construction — two patch keys that reach the same
	// object — and no file, flag or environment can express such an input)
	merges, planted := genStream(r, cfg, files, 8, false)
	ops := append([]wire.Op{}, merges...)
	ops = append(ops, wire.Op{Op: "Output", Format: "json"}, wire.Op{Op: "Output", Format: r.Pick("yaml", "toml", "json-pretty")}, wire.Op{Op: "OutputDocuments"})
	return ops, planted
}

// evalSig is the comparable part of an evaluation: outcome class of every
// call, and the bytes / documents of the output calls. Error text is not
// compared (which of two invalid keys is reported first may legitimately
// depend on iteration order).
func evalSig(ops []wire.Op, t taskOutcome) ([]string, bool) {
	var sig []string
	resource := false
	for i, op := range ops {
		o := t.outcomeOf(i)
		if o == "budget" || o == "crash" || o == "skipped" {
			resource = true
		}
		s := op.Op + ":" + o
		if o == "ok" && i < len(t.Ops) && isOutputOp(op.Op) {
			s += ":" + bytesOf(t.Ops[i]) + ":" + outsString(t.Ops[i].Outs)
		}
		sig = append(sig, s)
		if isMergeOp(op.Op) && o != "ok" {
			// the evaluation has failed; what the parser holds after a
			// failed merge is not specified (the CLI exits here)
			break
		}
	}
	return sig, resource
}

func sigDiff(a, b []string) (int, bool) {
	for i := range a {
		if i >= len(b) || a[i] != b[i] {
			return i, true
		}
	}
	return 0, len(a) != len(b)
}

func c09Schedules(r *gen.Rand, k int) []wire.Sched {
	out := []wire.Sched{{Mode: "Desc"}}
	for len(out) < k {
		switch r.Intn(6) {
		case 0:
			out = append(out, wire.Sched{Mode: "Rot", Rot: r.Range(1, 7)})
		case 1:
			out = append(out, wire.Sched{Mode: "HashN", Seed: r.U64() >> 1, Coin: gen.PickAny(r, []float64{0, 0.5, 1})})
		case 2:
			out = append(out, wire.Sched{Mode: "Hash", Seed: r.U64() >> 1, Coin: 1})
		case 3:
			out = append(out, wire.Sched{Mode: "Hash", Seed: r.U64() >> 1, Coin: 0})
		default:
			out = append(out, wire.Sched{Mode: "Hash", Seed: r.U64() >> 1, Coin: 0.5})
		}
	}
	return out
}

type c09Obs struct {
	Clause string `json:"clause"`
	Task   int    `json:"task"`
	Op     int    `json:"op"`
	Got    string `json:"got"`
	Want   string `json:"want"`
	Stderr string `json:"stderr,omitempty"`
}

type c09Runner struct {
	e     *Env
	pool  *libsim.Pool
	race  *libsim.Pool
	stock *libsim.Pool
	world string
}

func (c *c09Runner) dir(files map[string]string, tag string, run int64) (string, func(), error) {
	dir := filepath.Join(c.world, fmt.Sprintf("%s-%d", tag, run))
	if err := writeFiles(dir, files, nil); err != nil {
		return "", nil, &libsim.InfraError{Msg: err.Error()}
	}
	return dir, func() { os.RemoveAll(dir) }, nil
}

// solo evaluates every task of the case on its own under one schedule.
func (c *c09Runner) solo(cs *C09Case, sched wire.Sched, dir string, run int64) ([]taskOutcome, *wire.Result, error) {
	req := &wire.Request{Run: run, Sched: sched, Budget: StepBudget, Cwd: dir, Env: stdEnv}
	for _, ops := range cs.Tasks {
		req.Tasks = append(req.Tasks, wire.TaskSpec{Ops: ops})
	}
	return execTasks(c.pool, req)
}

// judgeSched: sub-checks 1+2 — the reference (Asc) and another schedule.
func (c *c09Runner) judgeSched(cs *C09Case, dir string, run int64) (*c09Obs, bool, *wire.Result, error) {
	one := &C09Case{Tasks: cs.Tasks[:1]}
	ref, _, err := c.solo(one, cs.Ref, dir, run)
	if err != nil {
		return nil, false, nil, err
	}
	oth, res, err := c.solo(one, cs.Other, dir, run)
	if err != nil {
		return nil, false, nil, err
	}
	a, ra := evalSig(cs.Tasks[0], ref[0])
	b, rb := evalSig(cs.Tasks[0], oth[0])
	if ra || rb {
		return nil, true, res, nil
	}
	if i, d := sigDiff(a, b); d {
		return &c09Obs{Clause: "schedule-dependent-result", Op: i, Got: short(at(b, i), 700), Want: short(at(a, i), 700)}, false, res, nil
	}
	return nil, false, res, nil
}

func at(s []string, i int) string {
	if i < len(s) {
		return s[i]
	}
	return "<missing>"
}

// judgeCoop: sub-check 3 — tasks interleaved by the seeded scheduler against
// the same tasks run one after another under the same iteration schedule.
func (c *c09Runner) judgeCoop(cs *C09Case, dir string, run int64) (*c09Obs, bool, *wire.Result, error) {
	solo, _, err := c.solo(cs, cs.Other, dir, run)
	if err != nil {
		return nil, false, nil, err
	}
	for i := range cs.Tasks {
		if _, res := evalSig(cs.Tasks[i], solo[i]); res {
			return nil, true, nil, nil
		}
	}
	req := &wire.Request{Run: run, Sched: cs.Other, Budget: StepBudget, Cwd: dir, Env: stdEnv, Coop: cs.Coop}
	for _, ops := range cs.Tasks {
		req.Tasks = append(req.Tasks, wire.TaskSpec{Ops: ops})
	}
	res, err := c.pool.Exec(req)
	if err != nil {
		return nil, false, nil, err
	}
	if res.Crash {
		return &c09Obs{Clause: "interleaving-dependent-result", Got: "worker died: " + libsim.CrashKind(res.Stderr), Want: "as in the sequential run", Stderr: short(res.Stderr, 1500)}, false, res, nil
	}
	for i := range cs.Tasks {
		a, _ := evalSig(cs.Tasks[i], solo[i])
		b, _ := evalSig(cs.Tasks[i], taskOutcome{Ops: res.Tasks[i], CrashAt: -1})
		if j, d := sigDiff(a, b); d {
			return &c09Obs{Clause: "interleaving-dependent-result", Task: i, Op: j, Got: short(at(b, j), 700), Want: short(at(a, j), 700)}, false, res, nil
		}
	}
	return nil, false, res, nil
}

// judgeReal: sub-check 5 — real goroutines in the stock library under the
// race detector, against the sequential result in the same process.
func (c *c09Runner) judgeReal(cs *C09Case, dir string, run int64) (*c09Obs, bool, error) {
	seq := &wire.Request{Run: run, Sched: wire.Sched{Mode: "Native"}, Cwd: dir, Env: stdEnv}
	par := &wire.Request{Run: run, Sched: wire.Sched{Mode: "Native"}, Cwd: dir, Env: stdEnv, Real: true}
	for _, ops := range cs.Tasks {
		for k := 0; k < cs.Copies; k++ {
			seq.Tasks = append(seq.Tasks, wire.TaskSpec{Ops: ops})
			par.Tasks = append(par.Tasks, wire.TaskSpec{Ops: ops})
		}
	}
	sres, err := c.race.Exec(seq)
	if libsim.IsWatchdog(err) {
		// the -race worker has no step budget: an evaluation that passed the
		// pre-screen under four schedules and still runs away under the
		// runtime's own order is abandoned (resource exhaustion is C08's
		// subject) and counted
		c.e.Ev.Count("race_batches_abandoned_after_watchdog", 1)
		return nil, true, nil
	}
	if err != nil {
		return nil, false, err
	}
	if sres.Crash {
		// a crash in a sequential evaluation is C08's subject
		return nil, true, nil
	}
	pres, err := c.race.Exec(par)
	if libsim.IsWatchdog(err) {
		c.e.Ev.Count("race_batches_abandoned_after_watchdog", 1)
		return nil, true, nil
	}
	if err != nil {
		return nil, false, err
	}
	if pres.Crash {
		kind := libsim.CrashKind(pres.Stderr)
		clause := "goroutine-dependent-result"
		if kind == "data-race" {
			clause = "data-race"
		}
		return &c09Obs{Clause: clause, Got: "worker died: " + kind, Want: "as in the sequential run", Stderr: short(pres.Stderr, 3000)}, false, nil
	}
	for i := range seq.Tasks {
		a, _ := evalSig(seq.Tasks[i].Ops, taskOutcome{Ops: sres.Tasks[i], CrashAt: -1})
		b, _ := evalSig(par.Tasks[i].Ops, taskOutcome{Ops: pres.Tasks[i], CrashAt: -1})
		if j, d := sigDiff(a, b); d {
			return &c09Obs{Clause: "goroutine-dependent-result", Task: i, Op: j, Got: short(at(b, j), 700), Want: short(at(a, j), 700)}, false, nil
		}
	}
	return nil, false, nil
}

// judgeFresh: sub-check 6 — the evaluation alone in a brand-new worker
// process against the same evaluation in another brand-new process that has
// first evaluated the case's other tasks (its "predecessors") on their own
// parsers. Both histories are part of the case, so the run is replayable.
func (c *c09Runner) judgeFresh(cs *C09Case, run int64) (*c09Obs, bool, error) {
	dir, cleanup, err := c.dir(cs.Files, "fresh", run)
	if err != nil {
		return nil, false, err
	}
	defer cleanup()
	exec := func(tasks [][]wire.Op, predecessors int) ([]taskOutcome, error) {
		fp := libsim.NewPool(c.e.Tree.Worker("inst"), 1, workerAS)
		defer fp.Close()
		req := &wire.Request{Run: run, Sched: cs.Other, Budget: StepBudget, Cwd: dir, Env: stdEnv}
		for i, ops := range tasks {
			t := wire.TaskSpec{Ops: ops}
			if i < predecessors {
				// the predecessors ran under another environment: the
				// environment is an input of each evaluation, not of the process
				t.Env = map[string]string{"VERIF_A": fmt.Sprintf("other%d", i), "VERIF_B": "", "VERIF_UNSET": "set-for-predecessor"}
			}
			req.Tasks = append(req.Tasks, t)
		}
		out, _, err := execTasks(fp, req)
		return out, err
	}
	alone, err := exec(cs.Tasks[:1], 0)
	if err != nil {
		return nil, false, err
	}
	// predecessors first, the evaluation under test last
	order := append(append([][]wire.Op{}, cs.Tasks[1:]...), cs.Tasks[0])
	after, err := exec(order, len(order)-1)
	if err != nil {
		return nil, false, err
	}
	a, ra := evalSig(cs.Tasks[0], alone[0])
	b, rb := evalSig(cs.Tasks[0], after[len(after)-1])
	if ra || rb {
		return nil, true, nil
	}
	if i, d := sigDiff(a, b); d {
		return &c09Obs{Clause: "result-depends-on-earlier-evaluations-in-the-process", Op: i, Got: short(at(b, i), 700), Want: short(at(a, i), 700)}, false, nil
	}
	return nil, false, nil
}

// heavyFiles are hand-shaped inputs whose evaluation takes long enough for
// real goroutines to overlap for a long time (expensive documents are where
// per-process budgets, counters and pools are most likely to interact).
func heavyFiles(r *gen.Rand, shape int) (map[string]string, string) {
	switch shape % 3 {
	case 0:
		// YAML alias amplification: 7 lines, several hundred thousand nodes
		rep := func(name string, n int) string {
			parts := make([]string, n)
			for i := range parts {
				parts[i] = "*" + name
			}
			return "[" + strings.Join(parts, ", ") + "]"
		}
		top := r.Range(3, 7)
		y := "a: &a [x, x, x, x, x, x, x, x, x, x]\n" +
			"b: &b " + rep("a", 10) + "\n" +
			"c: &c " + rep("b", 10) + "\n" +
			"d: &d " + rep("c", 10) + "\n" +
			"e: &e " + rep("d", 10) + "\n" +
			"f: " + rep("e", top) + "\n"
		return map[string]string{"heavy.yaml": y}, "heavy.yaml"
	case 1:
		// a very wide document
		var b strings.Builder
		n := r.Range(20000, 60000)
		for i := 0; i < n; i++ {
			fmt.Fprintf(&b, "k%06d: {v: %d, s: \"str%d\"}\n", i, i%97, i%13)
		}
		return map[string]string{"heavy.yaml": b.String()}, "heavy.yaml"
	default:
		// many documents with references and repeats
		var b strings.Builder
		n := r.Range(40, 300)
		for i := 0; i < n; i++ {
			if i > 0 {
				b.WriteString("---\n")
			}
			// every document copies an evaluated value from a document far away in the stream
			j := (i + 24) % n
			fmt.Fprintf(&b, "name: d%d\ntmpl: {a: %d, l: [1, 2, 3]}\nuse: {$merge: tmpl, b: 2}\nr:\n- {$repeat: 3, i: $repeat}\ns: $\"n={name}\"\nfar: {$replace: {$match: {name: d%d}, $path: s}}\n", i, i, j)
		}
		return map[string]string{"heavy.yaml": b.String()}, "heavy.yaml"
	}
}

// judgeHeavy: sub-check 7 — four real goroutines evaluating an expensive
// input at once (stock library, no race detector: this is about results, not
// about memory accesses), against the same evaluations one after another.
func (c *c09Runner) judgeHeavy(cs *C09Case, run int64) (*c09Obs, bool, error) {
	dir, cleanup, err := c.dir(cs.Files, "heavy", run)
	if err != nil {
		return nil, false, err
	}
	defer cleanup()
	mk := func(real bool) *wire.Request {
		req := &wire.Request{Run: run, Sched: wire.Sched{Mode: "Native"}, Cwd: dir, Env: stdEnv, Real: real}
		for k := 0; k < cs.Copies; k++ {
			req.Tasks = append(req.Tasks, wire.TaskSpec{Ops: cs.Tasks[0]})
		}
		return req
	}
	seq, err := c.stock.Exec(mk(false))
	if err != nil {
		return nil, false, err
	}
	if seq.Crash {
		return nil, true, nil
	}
	par, err := c.stock.Exec(mk(true))
	if err != nil {
		return nil, false, err
	}
	if par.Crash {
		return &c09Obs{Clause: "goroutine-dependent-result", Got: "worker died: " + libsim.CrashKind(par.Stderr), Want: "as in the sequential run", Stderr: short(par.Stderr, 2000)}, false, nil
	}
	for i := range seq.Tasks {
		a, _ := evalSig(cs.Tasks[0], taskOutcome{Ops: seq.Tasks[i], CrashAt: -1})
		b, _ := evalSig(cs.Tasks[0], taskOutcome{Ops: par.Tasks[i], CrashAt: -1})
		if j, d := sigDiff(a, b); d {
			return &c09Obs{Clause: "goroutine-dependent-result", Task: i, Op: j, Got: short(at(b, j), 300), Want: short(at(a, j), 300)}, false, nil
		}
	}
	return nil, false, nil
}

func (c *c09Runner) judge(cs *C09Case, tag string, run int64) (*c09Obs, bool, *wire.Result, error) {
	if cs.Heavy {
		o, skip, err := c.judgeHeavy(cs, run)
		return o, skip, nil, err
	}
	if cs.Fresh {
		o, skip, err := c.judgeFresh(cs, run)
		return o, skip, nil, err
	}
	dir, cleanup, err := c.dir(cs.Files, tag, run)
	if err != nil {
		return nil, false, nil, err
	}
	defer cleanup()
	switch {
	case cs.Real:
		o, skip, err := c.judgeReal(cs, dir, run)
		return o, skip, nil, err
	case cs.Coop != nil:
		return c.judgeCoop(cs, dir, run)
	default:
		return c.judgeSched(cs, dir, run)
	}
}

func c09Candidates(c *C09Case) []*C09Case {
	var out []*C09Case
	clone := func() *C09Case {
		js, _ := json.Marshal(c)
		var n C09Case
		_ = json.Unmarshal(js, &n)
		return &n
	}
	if len(c.Tasks) > 1 {
		for t := len(c.Tasks) - 1; t >= 0; t-- {
			if len(c.Tasks) <= 1 || (c.Coop != nil && len(c.Tasks) <= 2) {
				break
			}
			n := clone()
			n.Tasks = append(n.Tasks[:t], n.Tasks[t+1:]...)
			if n.Coop != nil {
				n.Coop.Replay = false // task ids shift; fall back to the seed
				n.Coop.Switches = nil
			}
			out = append(out, n)
		}
	}
	if c.Copies > 2 {
		n := clone()
		n.Copies = c.Copies / 2
		out = append(out, n)
	}
	if c.Coop != nil && c.Coop.Replay && len(c.Coop.Switches) > 0 {
		n := clone()
		n.Coop.Switches = n.Coop.Switches[:len(n.Coop.Switches)/2]
		out = append(out, n)
		for i := range c.Coop.Switches {
			if len(c.Coop.Switches) > 12 {
				break
			}
			n := clone()
			n.Coop.Switches = append(n.Coop.Switches[:i], n.Coop.Switches[i+1:]...)
			out = append(out, n)
		}
	}
	for t := range c.Tasks {
		referenced := map[string]bool{}
		for _, op := range c.Tasks[t] {
			for _, p := range op.Parents {
				referenced[p] = true
			}
		}
		for i := range c.Tasks[t] {
			n := clone()
			removed := n.Tasks[t][i]
			n.Tasks[t] = append(n.Tasks[t][:i], n.Tasks[t][i+1:]...)
			if referenced[removed.ID] {
				for j := range n.Tasks[t] {
					var ps []string
					for _, p := range n.Tasks[t][j].Parents {
						if p != removed.ID {
							ps = append(ps, p)
						}
					}
					n.Tasks[t][j].Parents = ps
				}
			}
			out = append(out, n)
		}
	}
	if c.Coop == nil && !c.Real {
		// simpler schedules only (strictly decreasing rank: no ping-pong)
		rank := map[string]int{"Desc": 0, "Rot": 1}
		cur, ok := rank[c.Other.Mode]
		if !ok {
			cur = 2
		}
		for _, s := range []wire.Sched{{Mode: "Desc"}, {Mode: "Rot", Rot: 1}} {
			if rank[s.Mode] < cur {
				n := clone()
				n.Other = s
				out = append(out, n)
			}
		}
	}
	for t := range c.Tasks {
		for i, op := range c.Tasks[t] {
			if op.Data != nil {
				for _, s := range gen.Simpler(op.Data.V) {
					n := clone()
					n.Tasks[t][i].Data = &wire.Tree{V: s}
					out = append(out, n)
				}
			}
		}
	}
	return out
}

// RunC09 is the check for property C09 (library part; the fresh-process
// sub-check lives in c09proc.go and is invoked from here).
func RunC09(e *Env) (int, error) {
	ev := e.Ev
	c := &c09Runner{e: e, world: filepath.Join(e.Tree.Root, "c09")}
	c.pool = libsim.NewPool(e.Tree.Worker("inst"), e.Workers, workerAS)
	defer c.pool.Close()
	raceWorkers := e.Workers / 2
	if raceWorkers < 1 {
		raceWorkers = 1
	}
	c.race = libsim.NewPool(e.Tree.Worker("race"), raceWorkers, 0, "GORACE=halt_on_error=1 exitcode=66")
	c.race.Watchdog = 60 * time.Second
	defer c.race.Close()
	c.stock = libsim.NewPool(e.Tree.Worker("stock"), 2, 0)
	defer c.stock.Close()

	n := e.N(2500, 25000)
	heavyEvery := n / int64(e.Pick(3, 12))
	if heavyEvery < 1 {
		heavyEvery = 1
	}
	K := e.Pick(6, 24)
	coopEvery := int64(4)
	freshEvery := int64(e.Pick(8, 8))
	realEvery := int64(e.Pick(60, 25))

	fn := func(run int64) harness.RunResult {
		r := gen.New(e.Seed, "C09", run)
		files := map[string]string{}
		ops, planted := genC09Eval(r, files)
		base := &C09Case{Files: files, Tasks: [][]wire.Op{ops}, Planted: planted, Ref: wire.Sched{Mode: "Asc"}}
		report := func(cs *C09Case, check string, o *c09Obs) harness.RunResult {
			return harness.RunResult{Violation: &harness.Violation{Property: "C09", Check: check, Clause: o.Clause, Seed: e.Seed, Run: run, Case: cs, Observed: o}}
		}
		// sub-checks 1+2: schedule sweep
		nontrivial := false
		for k, s := range c09Schedules(r, K) {
			cs := *base
			cs.Other = s
			o, skipped, res, err := c.judge(&cs, "sched", run*100+int64(k))
			if err != nil {
				return harness.RunResult{Err: err}
			}
			if skipped {
				ev.Count("skipped_resource_exhaustion", 1)
				break
			}
			key := ""
			if res != nil {
				addProbes(ev, res.Probes)
				ev.Distinct("schedules", fmt.Sprint(res.Probes.Sig))
				if res.Probes.RangesMulti > 0 {
					nontrivial = true
					js, _ := json.Marshal(ops)
					key = fmt.Sprintf("%s|%d", js, res.Probes.Sig)
				}
			}
			ev.Eval(key)
			if res != nil {
				e.Log(run, "sched", k, cs.Other, res.Probes.Sig, res.Probes.Steps, o)
			}
			ev.Count("schedule_mode."+s.Mode, 1)
			if o != nil {
				return report(&cs, "schedule", o)
			}
		}
		if nontrivial {
			ev.Sample(map[string]any{"ops": ops, "schedules": "Asc vs Desc/Rot/Hash/HashN"})
		}
		// sub-check 6: independence from the process's history — the same
		// evaluation in a brand-new process (nothing evaluated before it)
		// and in a pooled worker that has already evaluated hundreds of
		// other cases (package-level caches, pools, counters)
		if run%freshEvery == 1 {
			cs := *base
			cs.Other = wire.Sched{Mode: "Asc"}
			cs.Fresh = true
			for t := 0; t < 6; t++ {
				o2, _ := genC09Eval(r.Fork(), nil)
				cs.Tasks = append(cs.Tasks, o2)
			}
			o, skipped, err := c.judgeFresh(&cs, run)
			if err != nil {
				return harness.RunResult{Err: err}
			}
			if !skipped {
				ev.Eval("")
				ev.Count("fresh_process_vs_long_lived_worker", 1)
				if o != nil {
					return report(&cs, "history", o)
				}
			}
		}
		// sub-check 3: cooperative interleaving
		if run%coopEvery == 0 {
			cs := *base
			T := r.Range(2, 4)
			for t := 1; t < T; t++ {
				if r.Chance(0.3) {
					cs.Tasks = append(cs.Tasks, ops) // the same evaluation twice
				} else {
					o2, _ := genC09Eval(r.Fork(), nil)
					cs.Tasks = append(cs.Tasks, o2)
				}
			}
			cs.Other = wire.Sched{Mode: r.Pick("Hash", "HashN"), Seed: r.U64() >> 1, Coin: 0.5}
			cs.Coop = &wire.Coop{Seed: r.U64() >> 1, Prob: gen.PickAny(r, []float64{0.01, 0.1, 0.5})}
			o, skipped, res, err := c.judge(&cs, "coop", run)
			if err != nil {
				return harness.RunResult{Err: err}
			}
			if skipped {
				ev.Count("skipped_resource_exhaustion", 1)
			} else {
				ev.Eval("")
				ev.Count("interleaved_runs", 1)
				if res != nil {
					e.Log(run, "coop", cs.Coop, res.Switches, res.Probes.Sig, o)
					ev.Count("probe.task_switches", res.Probes.Switches)
					ev.Distinct("interleavings", fmt.Sprint(res.Switches))
					if o != nil {
						// materialise the hand-overs so the replay does not depend on the PRNG
						cs.Coop = &wire.Coop{Seed: cs.Coop.Seed, Prob: cs.Coop.Prob, Replay: true, Switches: res.Switches}
					}
				}
				if o != nil {
					return report(&cs, "interleaving", o)
				}
			}
		}
		// sub-check 7: expensive inputs in real goroutines
		if run%heavyEvery == 3 {
			files, input := heavyFiles(r.Fork(), int(run/heavyEvery))
			cs := &C09Case{Files: files, Heavy: true, Copies: 4, Ref: wire.Sched{Mode: "Native"}, Other: wire.Sched{Mode: "Native"},
				Tasks: [][]wire.Op{{{Op: "MergeFileLayers", Path: input}, {Op: "Output", Format: "json"}}}}
			o, skipped, _, err := c.judge(cs, "heavy", run)
			if err != nil {
				return harness.RunResult{Err: err}
			}
			if !skipped {
				ev.Eval("")
				ev.Count("heavy_concurrent_batches", 1)
				if o != nil {
					return report(cs, "heavy", o)
				}
			}
		}
		// sub-check 5: real goroutines, -race
		if run%realEvery == 0 && os.Getenv("VERIF_C09_NORACE") == "" {
			cs := *base
			for t := 1; t < 4; t++ {
				o2, _ := genC09Eval(r.Fork(), nil)
				cs.Tasks = append(cs.Tasks, o2)
			}
			// keep only evaluations that terminate within the step budget
			// (the -race worker has no step counter; runaway evaluations
			// are C08's subject and would only cost a worker restart here)
			// (whether an evaluation runs away can itself depend on the order:
			// the pre-screen uses four different schedules)
			runaway := make([]bool, len(cs.Tasks))
			for _, sc := range []wire.Sched{{Mode: "Asc"}, {Mode: "Desc"}, {Mode: "Hash", Seed: uint64(run)*2 + 1, Coin: 1}, {Mode: "Hash", Seed: uint64(run)*2 + 2, Coin: 0}} {
				pre, _, err := c.solo(&cs, sc, "/", run)
				if err != nil {
					return harness.RunResult{Err: err}
				}
				for t := range cs.Tasks {
					if _, res := evalSig(cs.Tasks[t], pre[t]); res {
						runaway[t] = true
					}
				}
			}
			var keep [][]wire.Op
			for t := range cs.Tasks {
				if !runaway[t] {
					keep = append(keep, cs.Tasks[t])
				}
			}
			if len(keep) == 0 {
				return harness.RunResult{}
			}
			cs.Tasks = keep
			cs.Real = true
			cs.Copies = 4
			o, skipped, _, err := c.judge(&cs, "real", run)
			if err != nil {
				return harness.RunResult{Err: err}
			}
			if skipped {
				ev.Count("skipped_resource_exhaustion", 1)
			} else {
				ev.Eval("")
				ev.Count("race_detector_batches", 1)
				ev.Count("race_detector_goroutines", int64(len(cs.Tasks)*cs.Copies))
				if o != nil {
					return report(&cs, "goroutines", o)
				}
			}
		}
		return harness.RunResult{}
	}

	finish := func(v *harness.Violation) (*harness.Violation, string) {
		cs := v.Case.(*C09Case)
		if cs.Heavy {
			v.Note = "heavy real-goroutine sub-check: not schedule-controlled, reported as first observed"
			return v, ""
		}
		o, _, _, err := c.judge(cs, "confirm", v.Run)
		if err != nil || o == nil || o.Clause != v.Clause {
			if cs.Real {
				// the Go scheduler decides this one; keep the report as found
				v.Note = "real-goroutine sub-check: not schedule-controlled, reported as first observed"
				return v, ""
			}
			v.Note = "did not reproduce on re-execution"
			return v, ""
		}
		k := 0
		min, used := harness.Shrink(cs, c09Candidates, func(cand *C09Case) bool {
			k++
			o, _, _, err := c.judge(cand, "shrink", v.Run*1000+int64(k))
			return err == nil && o != nil && o.Clause == v.Clause
		}, e.Pick(400, 400))
		o, _, _, _ = c.judge(min, "final", v.Run)
		v.Case, v.Shrunk, v.ShrinkExecs = min, true, used
		if o != nil {
			v.Observed = o
		}
		return v, c09Known(min)
	}

	t0 := time.Now()
	viol, err := e.Drive(n, fn, finish)
	if err == nil && viol == 0 {
		viol, err = runC09Proc(e)
	}
	ev.Coverage["rule"] = fmt.Sprintf("each run draws one evaluation (stream + layers [+ file chain], then Output json, Output yaml/toml/json-pretty, OutputDocuments) from the program generator (incl. key families that a loose comparison ties — 1/01, k7/k07, case, Unicode forms — under order-sensitive consumers, and cross-document references matching their own document) and executes it under the reference order (Asc) and %d other iteration schedules (Desc, Rot, Hash, HashN; created-during-range coin 0/0.5/1); every 4th run also interleaves 2-4 evaluations on separate parsers under the seeded task scheduler and compares with the sequential result; every %dth run starts 16 real goroutines in the stock library built with -race; a sample of cases is run as fresh stock CLI processes; non-trivial = the evaluation executed a range over a map with >= 2 keys; distinct = canonical ops x schedule signature", K, realEvery)
	ev.Coverage["loop_seconds"] = time.Since(t0).Seconds()
	ev.Assumptions = []string{
		"error text is not compared, only success/failure and output bytes",
		"evaluations that exhaust the step budget or kill the worker under any schedule are not compared (step counts legitimately depend on order); their existence is C08's subject",
		"iteration order inside yaml.v3/go-toml/encoding/json is not under the seam (their encoders sort keys)",
		"the real-goroutine sub-check is not schedule-controlled; the race detector's verdict is happens-before based",
	}
	components(ev, e.Tree, []string{"package bkl (instrumented copy; stock copy with -race; stock CLI)"}, []string{})
	return viol, err
}

// c09Known names the known-finding predicate a minimised case satisfies.
func c09Known(c *C09Case) string { return "" }

func init() {
	for _, chk := range []string{"schedule", "interleaving", "goroutines", "history", "heavy"} {
		replayers["C09/"+chk] = func(e *Env, raw []byte) (string, any, error) {
			var v struct {
				Clause string  `json:"clause"`
				Run    int64   `json:"run"`
				Case   C09Case `json:"case"`
			}
			if err := json.Unmarshal(raw, &v); err != nil {
				return "", nil, err
			}
			c := &c09Runner{e: e, world: filepath.Join(e.Tree.Root, "c09-replay")}
			c.pool = libsim.NewPool(e.Tree.Worker("inst"), 1, workerAS)
			defer c.pool.Close()
			c.race = libsim.NewPool(e.Tree.Worker("race"), 1, 0, "GORACE=halt_on_error=1 exitcode=66")
			defer c.race.Close()
			c.stock = libsim.NewPool(e.Tree.Worker("stock"), 1, 0)
			defer c.stock.Close()
			o, _, _, err := c.judge(&v.Case, "replay", v.Run)
			if err != nil {
				return "", nil, err
			}
			if o == nil || o.Clause != v.Clause {
				return "", o, nil
			}
			return o.Clause, o, nil
		}
	}
}

var _ = strings.HasPrefix
