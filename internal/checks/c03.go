package checks

import (
	"encoding/json"
	"fmt"
	"os"
	"path/filepath"
	"sort"
	"strings"
	"time"

	"verif/internal/gen"
	"verif/internal/harness"
	"verif/internal/libsim"
	"verif/internal/model"
	"verif/internal/procsim"
	"wire"
)

// C03Case is a directory layout of layer files plus a bkl invocation.
type C03Case struct {
	World  procsim.World `json:"world"`
	Args   []string      `json:"args"`   // flags and inputs, relative to Cwd
	Inputs []string      `json:"inputs"` // the positional inputs among Args
	Cwd    string        `json:"cwd"`
	Sched  wire.Sched    `json:"schedule"`
	SkipP  bool          `json:"skip_parent,omitempty"`
	Format string        `json:"format,omitempty"` // -f value
	// Verbose: debug logging on ("-v" flag, or "env": BKL_DEBUG=1) — an
	// observer that writes to stderr and must not change the result
	Verbose string `json:"verbose,omitempty"`
	// Linear is set when the chain is a pure filename chain (eligible for the
	// $parent-equivalence transformation)
	Linear bool     `json:"linear,omitempty"`
	Shape  []string `json:"shape,omitempty"`
	// sweep: which fault is applied to which layer ("" = none)
	Fault     string `json:"fault,omitempty"`
	FaultPath string `json:"fault_path,omitempty"`
	Variant   string `json:"variant,omitempty"` // metamorphic variant applied
	// Baseline is the stdout of the unperturbed world (variants only)
	Baseline *string `json:"baseline_stdout,omitempty"`
}

const c03Dir = "w"

func genC03(r *gen.Rand) *C03Case {
	c := &C03Case{Cwd: c03Dir}
	w := &c.World
	w.Dirs = []string{c03Dir}
	c.Sched = wire.Sched{Mode: r.Pick("Hash", "Hash", "Desc", "Rot"), Seed: r.U64() >> 1, Coin: 0.5, Rot: r.Range(1, 5)}
	if r.Chance(0.1) {
		c.Verbose = r.Pick("-v", "env")
	}
	tc := c02Tree(true)
	child := gen.ChildCfg{Tree: tc, Edits: r.Range(1, 2), PUseless: 0.02}
	dir := c03Dir
	if r.Chance(0.2) {
		dir = c03Dir + "/sub"
		w.Dirs = append(w.Dirs, dir)
	}
	rel := func(p string) string {
		s, _ := filepath.Rel(c.Cwd, p)
		return s
	}
	exts := []string{"yaml", "yaml", "json", "yml", "jsonl"}
	// the same layout with every "$" ($parent, $match) spelled as an escape sequence
	escDollar := r.Chance(0.06)
	crlf := r.Chance(0.06) // every file written with CRLF line endings
	put := func(path string, docs ...any) {
		if _, ok := gen.StreamText(procsim.Ext(path), docs); !ok {
			b := "{}\n"
			w.Files = append(w.Files, procsim.File{Path: path, Raw: &b})
			return
		}
		w.Files = append(w.Files, procsim.File{Path: path, Docs: treeDocs(docs...), EscDollar: escDollar, CRLF: crlf})
	}
	mkBase := func(tag string) map[string]any {
		m := tc.Map(r, 2)
		m["from"] = tag
		if r.Chance(0.5) {
			m["list"] = []any{tag}
		}
		return m
	}
	mkChild := func(tag string, base map[string]any) map[string]any {
		m := child.Child(r, wire.Clone(base))
		delete(m, "from")
		m["k_"+tag] = tag
		if r.Chance(0.4) {
			m["list"] = []any{tag}
		}
		return m
	}
	depth := r.Range(1, 4)
	root := r.Pick("a", "svc", "app")
	if r.Chance(0.12) {
		// unusual but legal names: spaces, unicode, characters that mean
		// something to a shell or to a glob
		root = r.Pick("svc[1]", "app (x)", "cfg-é", "q?x", "a+b", "x{y}", "tilde~", "per%cent", "co,mma", "eq=ual",
			strings.Repeat("L", 246), strings.Repeat("n", 244)) // names near NAME_MAX: name + a longer extension does not fit
		c.Shape = append(c.Shape, "odd-name")
		if len(root) > 200 {
			depth = 1 // the base file itself must still fit into a directory entry
			exts = []string{"yaml", "json", "yml"}
		}
		if root == "svc[1]" || root == "q?x" {
			// a neighbour that a pattern reading of the name would match instead
			put(filepath.Join(dir, strings.NewReplacer("[1]", "1", "?", "z").Replace(root)+".yaml"), map[string]any{"wrong_neighbour": true})
		}
	}
	if r.Chance(0.06) && dir == c03Dir {
		dir = c03Dir + "/rel[2024]"
		w.Dirs = append(w.Dirs, dir)
		c.Shape = append(c.Shape, "odd-directory")
	} else if r.Chance(0.04) && dir == c03Dir {
		// a directory whose name is not valid UTF-8 (created under a Latin-1
		// locale): names are byte strings
		dir = c03Dir + "/caf@E9@"
		w.Dirs = append(w.Dirs, dir)
		c.Shape = append(c.Shape, "non-utf8-directory")
	}
	comps := []string{"b", "c", "prod", "eu"}
	gen.Shuffle(r, comps)
	if r.Chance(0.15) {
		// a repeated component, or a component that looks like an extension
		comps[0], comps[1] = r.Pick("b", "json", "yaml"), r.Pick("b", "json", "toml")
		if comps[0] == root {
			comps[0] = "b"
		}
		c.Shape = append(c.Shape, "odd-components")
	}
	name := root
	base := mkBase(root)
	var chain []string // file paths, base first
	c.Linear = true
	for l := 0; l < depth; l++ {
		if l > 0 {
			name += "." + comps[l-1]
		}
		var doc map[string]any
		if l == 0 {
			doc = base
		} else {
			doc = mkChild(fmt.Sprintf("l%d", l), base)
		}
		docs := []any{doc}
		if r.Chance(0.2) {
			extra := map[string]any{"$match": nil, "extra": fmt.Sprintf("x%d", l)}
			docs = append(docs, extra)
			c.Linear = false
			c.Shape = append(c.Shape, "second-document")
		}
		p := filepath.Join(dir, name+"."+gen.PickAny(r, exts))
		put(p, docs...)
		chain = append(chain, p)
	}
	top := chain[len(chain)-1]
	setParent := func(path string, v any, inSecond bool) {
		f := w.File(path)
		if f == nil {
			return
		}
		if inSecond {
			f.Docs = append(f.Docs, wire.Tree{V: map[string]any{"$match": nil, "$parent": v, "pdoc": 1}})
			return
		}
		if m, ok := f.Docs[0].V.(map[string]any); ok {
			m["$parent"] = v
		}
	}
	// variations
	twinInput := ""
	switch r.Intn(16) {
	case 0: // $parent name pointing at another base
		put(filepath.Join(dir, "other.yaml"), mkBase("other"))
		setParent(top, "other", r.Chance(0.3))
		c.Linear = false
		c.Shape = append(c.Shape, "parent-name")
	case 1: // $parent list
		put(filepath.Join(dir, "p1.yaml"), mkBase("p1"))
		put(filepath.Join(dir, "p2.json"), map[string]any{"k_p2": 2, "list": []any{"p2"}})
		setParent(top, []any{"p1", "p2"}, false)
		c.Linear = false
		c.Shape = append(c.Shape, "parent-list")
	case 2: // wildcard that must not cross dots
		put(filepath.Join(dir, "pre1.yaml"), mkBase("pre1"))
		put(filepath.Join(dir, "pre2.yaml"), map[string]any{"k_pre2": 2})
		put(filepath.Join(dir, "pre1.deep.yaml"), map[string]any{"must_not_load": true})
		put(filepath.Join(dir, "pre3.txt"), map[string]any{})
		setParent(top, "pre*", false)
		c.Linear = false
		c.Shape = append(c.Shape, "parent-wildcard")
	case 3: // $parent: false / null cuts the chain
		setParent(top, gen.PickAny(r, []any{false, nil}), r.Chance(0.3))
		c.Linear = false
		c.Shape = append(c.Shape, "parent-none")
	case 4: // symlink inherits from its target's name
		if depth >= 2 {
			// same extension as the target: the format is chosen by the name that is opened
			link := filepath.Join(dir, "lnk."+procsim.Ext(top))
			tgt := filepath.Base(top)
			if r.Chance(0.5) {
				// the link lives in another directory than its target: the
				// parent is looked up next to the target, not next to the link
				ldir := c03Dir + "/links"
				w.Dirs = append(w.Dirs, ldir)
				link = filepath.Join(ldir, "lnk."+procsim.Ext(top))
				rp, _ := filepath.Rel(ldir, top)
				tgt = rp
				if r.Chance(0.5) {
					// a file next to the link that carries the parent's name must not be picked up
					parts := strings.Split(filepath.Base(top), ".")
					decoy := strings.Join(parts[:len(parts)-2], ".")
					put(filepath.Join(ldir, decoy+".yaml"), map[string]any{"decoy_next_to_link": true})
				}
				c.Shape = append(c.Shape, "symlink-other-directory")
			}
			if r.Chance(0.2) {
				tgt = "@ABS@/" + top
			} else if r.Chance(0.35) {
				// two hops through two directories: the second link's relative
				// target is relative to ITS directory, not to the first link's
				hdir := c03Dir + r.Pick("/hop", "/hop/deeper", "/hop/deeper")
				w.Dirs = append(w.Dirs, hdir)
				mid := filepath.Join(hdir, "mid."+procsim.Ext(top))
				rp, _ := filepath.Rel(hdir, top)
				w.Links = append(w.Links, procsim.Link{Path: mid, Target: rp})
				tgt, _ = filepath.Rel(filepath.Dir(link), mid)
				c.Shape = append(c.Shape, "symlink-two-hops")
			}
			w.Links = append(w.Links, procsim.Link{Path: link, Target: tgt})
			top = link
			c.Linear = false
			c.Shape = append(c.Shape, "symlink")
			if strings.Contains(tgt, "..") && !strings.HasPrefix(tgt, "@ABS@") && r.Chance(0.4) {
				// the link is reached through a directory link whose own
				// parent is elsewhere: the ".." in the file link's target is
				// relative to the directory the link really lives in, not to
				// the spelling it was reached by
				fdir := c03Dir + "/far/away"
				w.Dirs = append(w.Dirs, fdir)
				rp, _ := filepath.Rel(fdir, filepath.Dir(link))
				w.Links = append(w.Links, procsim.Link{Path: fdir + "/lk", Target: rp})
				top = filepath.Join(fdir, "lk", filepath.Base(link))
				if lex := filepath.Dir(filepath.Join(fdir, "lk", tgt)); r.Chance(0.5) {
					// same-named files at the lexically computed neighbour must not be picked up
					w.Dirs = append(w.Dirs, lex)
					for _, p := range chain {
						put(filepath.Join(lex, filepath.Base(p)), map[string]any{"decoy_lexical_neighbour": true})
					}
				}
				c.Shape = append(c.Shape, "symlink-through-dir-link")
			}
		}
	case 5: // directory symlink
		w.Links = append(w.Links, procsim.Link{Path: c03Dir + "/dl", Target: strings.TrimPrefix(dir, c03Dir+"/")})
		if dir == c03Dir {
			w.Links[len(w.Links)-1].Target = "."
		}
		top = filepath.Join(c03Dir+"/dl", filepath.Base(top))
		c.Linear = false
		c.Shape = append(c.Shape, "dir-symlink")
	case 6: // a middle layer is missing
		if depth >= 3 {
			i := r.Range(0, depth-2)
			p := chain[i]
			for k, f := range w.Files {
				if f.Path == p {
					w.Files = append(w.Files[:k], w.Files[k+1:]...)
					break
				}
			}
			c.Linear = false
			c.Shape = append(c.Shape, "missing-layer")
		}
	case 7: // chain through $parent in a lower layer to a deeper name
		put(filepath.Join(dir, "x.y.yaml"), map[string]any{"k_xy": 1})
		put(filepath.Join(dir, "x.yaml"), mkBase("x"))
		setParent(chain[0], "x.y", false)
		c.Linear = false
		c.Shape = append(c.Shape, "parent-chain")
	case 12: // one shared layer linked into two directories: it occurs twice on one ancestor line, legitimately
		w.Dirs = append(w.Dirs, c03Dir+"/shared", c03Dir+"/staging", c03Dir+"/prodd")
		// (only list content: the shared layer is applied twice, and a scalar would be a useless override the second time)
		put(c03Dir+"/shared/app.yaml", map[string]any{"$parent": "base", "list": []any{"shared"}, "more": []any{map[string]any{"s": 1}}})
		w.Links = append(w.Links, procsim.Link{Path: c03Dir + "/staging/app.yaml", Target: "../shared/app.yaml"})
		w.Links = append(w.Links, procsim.Link{Path: c03Dir + "/prodd/app.yaml", Target: "../shared/app.yaml"})
		put(c03Dir+"/staging/base.yaml", map[string]any{"env": "staging", "list": []any{"sb"}})
		put(c03Dir+"/prodd/base.yaml", map[string]any{"$parent": "../staging/app", "env2": "prod", "list": []any{"pb"}})
		top = c03Dir + "/prodd/app.yaml"
		c.Linear = false
		c.Shape = append(c.Shape, "shared-layer-linked-twice")
	case 9: // diamond: two parents sharing a grandparent (the grandparent is loaded twice)
		put(filepath.Join(dir, "g.yaml"), mkBase("g"))
		put(filepath.Join(dir, "d1.yaml"), map[string]any{"$parent": "g", "k_d1": 1, "list": []any{"d1"}}, map[string]any{"$match": nil, "d1doc": 2})
		put(filepath.Join(dir, "d2.json"), map[string]any{"$parent": "g", "k_d2": 2, "list": []any{"d2"}})
		setParent(top, []any{"d1", "d2"}, false)
		c.Linear = false
		c.Shape = append(c.Shape, "diamond")
	case 10: // the same parent named twice
		put(filepath.Join(dir, "p1.yaml"), map[string]any{"list": []any{"p1"}, "k_p1": 1})
		setParent(top, []any{"p1", "p1"}, false)
		c.Linear = false
		c.Shape = append(c.Shape, "parent-twice")
	case 11: // wildcard matching files of different formats, in name order
		put(filepath.Join(dir, "wa.yaml"), map[string]any{"list": []any{"wa"}, "w": "a"})
		put(filepath.Join(dir, "wb.json"), map[string]any{"list": []any{"wb"}, "w": "b"})
		put(filepath.Join(dir, "wc.yml"), map[string]any{"list": []any{"wc"}, "w": "c"})
		if r.Chance(0.3) {
			// a directory's worth of matches (more than any batch or pool
			// size); "w10" sorts before "w2"
			nMany := gen.PickAny(r, []int{6, 9, 12, 17, 33})
			for k := 0; k < nMany; k++ {
				nm := fmt.Sprintf("w%d", k)
				doc := map[string]any{"list": []any{nm}, "w": nm}
				if r.Chance(0.3) {
					put(filepath.Join(dir, nm+"."+gen.PickAny(r, exts)), doc, map[string]any{"$match": nil, "own": nm})
				} else {
					put(filepath.Join(dir, nm+"."+gen.PickAny(r, exts)), doc)
				}
			}
			c.Shape = append(c.Shape, "many-parents")
		}
		setParent(top, "w*", r.Chance(0.3))
		c.Linear = false
		c.Shape = append(c.Shape, "parent-wildcard-formats")
	case 13, 14: // a second chain with the very same file names in another directory, evaluated by the same parser
		tdir := dir + "/twin"
		w.Dirs = append(w.Dirs, tdir)
		tbase := mkBase("twin")
		for l, p := range chain {
			var doc map[string]any = tbase
			if l > 0 {
				doc = mkChild(fmt.Sprintf("t%d", l), tbase)
			}
			put(filepath.Join(tdir, filepath.Base(p)), doc)
		}
		layer := strings.TrimSuffix(filepath.Base(top), "."+procsim.Ext(top))
		if r.Chance(0.5) {
			twinInput = rel(filepath.Join(tdir, filepath.Base(top)))
		} else {
			put(filepath.Join(dir, "all.yaml"), map[string]any{"$parent": []any{layer, "twin/" + layer}, "k_all": 1})
			top = filepath.Join(dir, "all.yaml")
		}
		c.Linear = false
		c.Shape = append(c.Shape, "twin-chains")
	case 15: // $parent list mixing wildcards and plain names: entries in the order written, each wildcard's matches in name order
		for _, nm := range []string{"m1", "m2", "n1", "n2", "a0", "z9"} {
			put(filepath.Join(dir, nm+"."+gen.PickAny(r, exts)), map[string]any{"list": []any{nm}, "w": nm, "k_" + nm: nm})
		}
		lists := [][]any{
			{"z9", "m*"}, {"m*", "a0"}, {"n*", "m*"}, {"m2", "m*"}, {"m*", "m1"},
			{"z9", "n*", "a0"}, {"n*", "a0", "m*"}, {"a0", "m*", "z9"},
		}
		setParent(top, lists[r.Intn(len(lists))], r.Chance(0.2))
		c.Linear = false
		c.Shape = append(c.Shape, "parent-list-mixed")
	case 8: // $parent with invalid / conflicting values
		switch r.Intn(4) {
		case 0:
			setParent(top, true, false)
		case 1:
			setParent(top, "nosuch", false)
		case 2:
			// a value that is neither a name, a list, false nor null (an
			// unquoted number is the classic YAML slip): naming a parent that
			// cannot be looked up must not pass silently
			put(filepath.Join(dir, "2024.yaml"), mkBase("y2024"))
			setParent(top, gen.PickAny(r, []any{2024, 1.5, map[string]any{"name": "p9"}}), r.Chance(0.3))
		default:
			setParent(top, false, false)
			setParent(top, "p9", true)
			put(filepath.Join(dir, "p9.yaml"), mkBase("p9"))
		}
		c.Linear = false
		c.Shape = append(c.Shape, "parent-invalid")
	}
	if r.Chance(0.08) && len(chain) >= 2 && c.Linear {
		// a layer that is a named pipe (config produced by another program):
		// it has no size to trust, only a stream to read to its end
		if f := w.File(chain[r.Intn(len(chain)-1)]); f != nil && f.Raw == nil {
			f.Fifo = true
			c.Linear = false
			c.Shape = append(c.Shape, "named-pipe-layer")
		}
	}
	// noise that must not matter
	if r.Chance(0.5) {
		put(filepath.Join(dir, "unrelated.yaml"), map[string]any{"noise": 1})
		put(filepath.Join(dir, root+".txt"), map[string]any{})
		b := "{}"
		w.Files = append(w.Files, procsim.File{Path: filepath.Join(dir, root+".b.bak"), Raw: &b})
	}
	// invocation
	in := rel(top)
	if r.Chance(0.15) {
		// virtual extension
		e := procsim.Ext(in)
		alt := r.Pick("json", "yaml", "yml", "toml")
		if alt != e {
			in = strings.TrimSuffix(in, "."+e) + "." + alt
			c.Shape = append(c.Shape, "virtual-ext")
		}
	}
	c.Inputs = []string{in}
	if twinInput != "" {
		c.Inputs = append(c.Inputs, twinInput)
		if r.Chance(0.3) {
			c.Inputs[0], c.Inputs[1] = c.Inputs[1], c.Inputs[0]
		}
		c.Shape = append(c.Shape, "multi-input")
	}
	if r.Chance(0.25) {
		// a second command-line input, applied after the first
		zb := mkBase("z")
		put(filepath.Join(dir, "z.yaml"), zb)
		second := "z.yaml"
		if r.Chance(0.5) {
			zc := mkChild("zc", zb)
			put(filepath.Join(dir, "z.c.json"), zc)
			second = "z.c.json"
		}
		c.Inputs = append(c.Inputs, rel(filepath.Join(dir, second)))
		if r.Chance(0.5) {
			c.Inputs[0], c.Inputs[1] = c.Inputs[1], c.Inputs[0]
		}
		c.Linear = false
		c.Shape = append(c.Shape, "multi-input")
	}
	if r.Chance(0.12) {
		c.SkipP = true
		c.Linear = false
		c.Shape = append(c.Shape, "skip-parent")
	}
	if r.Chance(0.5) {
		c.Format = r.Pick("json", "yaml", "json-pretty")
	}
	c.buildArgs()
	return c
}

func (c *C03Case) buildArgs() {
	c.Args = nil
	if c.Format != "" {
		c.Args = append(c.Args, "-f", c.Format)
	}
	if c.SkipP {
		c.Args = append(c.Args, "-P")
	}
	if c.Verbose == "-v" {
		c.Args = append(c.Args, "-v")
	}
	c.Args = append(c.Args, c.Inputs...)
}

type c03Obs struct {
	Clause  string           `json:"clause"`
	Detail  string           `json:"detail,omitempty"`
	Outcome *procsim.Outcome `json:"outcome,omitempty"`
	Want    any              `json:"want,omitempty"`
	Loads   []string         `json:"model_loads,omitempty"`
	Named   []string         `json:"-"` // loads that are not wildcard matches
	Wild    []string         `json:"-"` // loads reached through a wildcard
	// stats
	Chain     int  `json:"-"`
	Fired     bool `json:"-"`
	Ambiguous bool `json:"-"`
	ModelErr  bool `json:"-"`
}

func stripParent(v any) any {
	m, ok := v.(map[string]any)
	if !ok {
		return v
	}
	n := map[string]any{}
	for k, e := range m {
		if k != "$parent" {
			n[k] = wire.Clone(e)
		}
	}
	return n
}

// c03Expect runs the reference resolver over the materialised world and, if
// it resolves, folds the loads with the real MergeDocument/Output in a fresh
// parser. It returns (expectFail, expectedStdout, loads).
func c03Expect(e *Env, pool *libsim.Pool, c *C03Case, root string, run int64) (bool, string, []model.Load, bool, error) {
	docsByPath := map[string][]any{}
	for _, f := range c.World.Files {
		if f.Raw != nil {
			continue
		}
		var ds []any
		for _, d := range f.Docs {
			ds = append(ds, d.V)
		}
		docsByPath[filepath.Join(root, procsim.Real(f.Path))] = ds
	}
	res := &model.Resolver{}
	res.Docs = func(p string) ([]any, bool) {
		// through symlinks to the real file
		real, err := filepath.EvalSymlinks(p)
		if err != nil {
			return nil, false
		}
		if fi, err := os.Stat(real); err != nil || !(fi.Mode().IsRegular() || fi.Mode()&os.ModeNamedPipe != 0) {
			return nil, false
		}
		ds, ok := docsByPath[real]
		return ds, ok
	}
	cwd := filepath.Join(root, procsim.Real(c.Cwd))
	var loads []model.Load
	var inputRoots []int // load index of each input's own file
	format := c.Format
	var starts []int
	for _, in := range c.Inputs {
		p := procsim.Real(resolveAbs(root, in))
		if !filepath.IsAbs(p) {
			p = filepath.Join(cwd, p)
		}
		real, f, err := res.Input(p)
		if err != nil {
			return true, "", loads, res.Ambiguous, nil
		}
		if format == "" {
			format = f
		}
		starts = append(starts, len(loads))
		if c.SkipP {
			if _, ok := res.Docs(real); !ok {
				return true, "", loads, res.Ambiguous, nil
			}
			loads = append(loads, model.Load{Path: real})
			inputRoots = append(inputRoots, len(loads)-1)
			continue
		}
		idx, err := res.Chain(real, &loads, nil)
		if err != nil {
			return true, "", loads, res.Ambiguous, nil
		}
		inputRoots = append(inputRoots, idx)
	}
	// fold
	var ops []wire.Op
	idsOf := make([][]string, len(loads))
	for li, l := range loads {
		docs, _ := res.Docs(l.Path)
		for di, d := range docs {
			id := fmt.Sprintf("load%d|doc%d", li, di)
			idsOf[li] = append(idsOf[li], id)
			_ = d
		}
	}
	for li, l := range loads {
		docs, _ := res.Docs(l.Path)
		var parents []string
		for _, pi := range l.Parents {
			parents = append(parents, idsOf[pi]...)
		}
		for di, d := range docs {
			ops = append(ops, wire.Op{Op: "MergeDocument", ID: idsOf[li][di], Parents: parents, Data: &wire.Tree{V: stripParent(d)}})
		}
	}
	ops = append(ops, wire.Op{Op: "Output", Format: format})
	req := &wire.Request{Run: run, Sched: wire.Sched{Mode: "Asc"}, Budget: StepBudget, Cwd: "/", Env: stdEnv, Tasks: []wire.TaskSpec{{Ops: ops}}}
	tasks, _, err := execTasks(pool, req)
	if err != nil {
		return false, "", loads, res.Ambiguous, err
	}
	t := tasks[0]
	for i := range ops {
		if t.outcomeOf(i) != "ok" {
			return true, "", loads, res.Ambiguous, nil
		}
	}
	return false, bytesOf(t.Ops[len(ops)-1]), loads, res.Ambiguous, nil
}

func c03Materialise(c *C03Case, root string) error {
	w := c.World.Clone()
	for i := range w.Links {
		w.Links[i].Target = resolveAbs(root, w.Links[i].Target)
	}
	if err := w.Materialise(root); err != nil {
		return &libsim.InfraError{Msg: err.Error()}
	}
	_ = os.MkdirAll(filepath.Join(root, "tmp"), 0o755)
	_ = os.MkdirAll(filepath.Join(root, "bin"), 0o755)
	return nil
}

func c03Invocation(c *C03Case, root string) *procsim.Invocation {
	args := make([]string, len(c.Args))
	for i, a := range c.Args {
		args[i] = resolveAbs(root, a)
	}
	s := c.Sched
	env := stdEnv
	if c.Verbose == "env" {
		env = map[string]string{"BKL_DEBUG": "1"}
		for k, v := range stdEnv {
			env[k] = v
		}
	}
	inv := &procsim.Invocation{Kind: "inst", Args: args, Cwd: c.Cwd, Sched: &s, StepBudget: ProcStepBudget, Env: env}
	for i := range c.World.Files {
		if f := &c.World.Files[i]; f.Fifo {
			if b, ok := f.Bytes(); ok {
				inv.Fifos = append(inv.Fifos, procsim.FifoFeed{Path: f.Path, Content: b})
			}
		}
	}
	return inv
}

// applyFault damages one layer of the materialised world.
func c03ApplyFault(c *C03Case, root string, inv *procsim.Invocation) error {
	if c.Fault == "" {
		return nil
	}
	p := filepath.Join(root, procsim.Real(c.FaultPath))
	switch c.Fault {
	case "delete":
		return os.Remove(p)
	case "dangling":
		if err := os.Remove(p); err != nil {
			return err
		}
		return os.Symlink("gone-"+filepath.Base(p), p)
	case "directory":
		if err := os.Remove(p); err != nil {
			return err
		}
		return os.Mkdir(p, 0o755)
	case "truncate-to-garbage":
		_ = os.Remove(p) // (a named pipe must not be opened for writing here: nobody reads it yet)
		return os.WriteFile(p, []byte("{\"a\": [1, 2"), 0o644)
	case "openat-EIO":
		inv.Injects = append(inv.Injects, procsim.Inject{Syscall: "openat", Path: c.FaultPath, Errno: "EIO"})
	case "openat-EACCES":
		inv.Injects = append(inv.Injects, procsim.Inject{Syscall: "openat", Path: c.FaultPath, Errno: "EACCES"})
	case "read-EIO":
		inv.Injects = append(inv.Injects, procsim.Inject{Syscall: "read", Path: c.FaultPath, Errno: "EIO", When: "1"})
	case "read-EIO-after-first-chunk":
		inv.Injects = append(inv.Injects, procsim.Inject{Syscall: "read", Path: c.FaultPath, Errno: "EIO", When: "2"})
	case "openat-EMFILE":
		inv.Injects = append(inv.Injects, procsim.Inject{Syscall: "openat", Path: c.FaultPath, Errno: "EMFILE"})
	}
	return nil
}

var c03Faults = []string{"delete", "dangling", "directory", "truncate-to-garbage", "openat-EIO", "openat-EACCES", "read-EIO", "read-EIO-after-first-chunk", "openat-EMFILE"}

// judgeC03 runs the case (with its fault / variant, if any).
func judgeC03(e *Env, pool *libsim.Pool, c *C03Case, tag string, run int64) (*c03Obs, error) {
	obs := &c03Obs{}
	root := filepath.Join(e.Tree.Root, "worlds", fmt.Sprintf("C03-%s-%d", tag, run))
	_ = os.RemoveAll(root)
	defer os.RemoveAll(root)
	if err := c03Materialise(c, root); err != nil {
		return nil, err
	}
	// expectation from the pristine world
	expectFail, want, loads, ambiguous, err := c03Expect(e, pool, c, root, run)
	if err != nil {
		return nil, err
	}
	obs.Chain = len(loads)
	obs.Ambiguous = ambiguous
	obs.ModelErr = expectFail
	for _, l := range loads {
		rp, _ := filepath.Rel(root, l.Path)
		rp = strings.ReplaceAll(rp, "caf\xe9", "caf@E9@") // back to the JSON-safe spelling
		obs.Loads = append(obs.Loads, rp)
		if !l.Wildcard {
			obs.Named = append(obs.Named, rp)
		} else {
			obs.Wild = append(obs.Wild, rp)
		}
	}
	if ambiguous {
		return obs, nil // outside the property's quantifier
	}
	inv := c03Invocation(c, root)
	if c.Fault != "" {
		if expectFail {
			return obs, nil
		}
		named := false
		for _, l := range obs.Named {
			if l == c.FaultPath {
				named = true
			}
		}
		if !named && c.Fault != "delete" {
			// a wildcard match that is still there but cannot be loaded
			// (garbage, a directory, a dangling link, an I/O error) is a
			// broken layer like any other; only its removal is a different,
			// legitimate configuration
			for _, l := range obs.Wild {
				if l == c.FaultPath {
					named = true
				}
			}
		}
		if !named {
			return obs, nil // only a layer of the chain must be fatal when faulted
		}
		if err := c03ApplyFault(c, root, inv); err != nil {
			return nil, &libsim.InfraError{Msg: err.Error()}
		}
	}
	out, err := runInv(e, root, "bkl", inv)
	if err != nil {
		return nil, err
	}
	obs.Outcome = trimOutcome(out)
	if out.Crash != "" || out.StepsOut || out.CPUOut || out.Blocked {
		return obs, nil // C08's subject
	}
	if c.Fault != "" {
		if strings.Contains(c.Fault, "-E") && out.Injected == 0 {
			// (strace reports every injected call)
			return obs, nil // the fault did not fire (layer not reached through that syscall)
		}
		obs.Fired = true
		if out.Status == 0 || out.Stdout != "" {
			obs.Clause = "faulted-layer-not-fatal"
			obs.Detail = fmt.Sprintf("%s on %s: status %d, stdout %q", c.Fault, c.FaultPath, out.Status, short(out.Stdout, 300))
			obs.Want = "non-zero status and empty stdout"
		}
		return obs, nil
	}
	if expectFail {
		if out.Status == 0 {
			obs.Clause = "resolved-although-model-expects-error"
			obs.Want = "error (missing / invalid / cyclic layer, or the ordered fold fails)"
		}
		return obs, nil
	}
	if out.Status != 0 {
		obs.Clause = "failed-although-model-resolves"
		obs.Want = map[string]any{"stdout": short(want, 600)}
		return obs, nil
	}
	if out.Stdout != want {
		obs.Clause = "output-differs-from-ordered-fold"
		obs.Want = map[string]any{"stdout": short(want, 800)}
	}
	return obs, nil
}

// c03VariantDiffers sets the pair clause if a perturbed world prints
// something else than the unperturbed one.
func c03VariantDiffers(v *C03Case, o *c03Obs) bool {
	if v.Baseline == nil || o.Outcome == nil || o.Ambiguous || o.Clause != "" {
		return o.Clause != ""
	}
	if o.Outcome.Status != 0 || o.Outcome.Stdout != *v.Baseline {
		o.Clause = "output-changed-by-" + v.Variant
		o.Want = map[string]any{"stdout": short(*v.Baseline, 800)}
		return true
	}
	return false
}

// variants: disk perturbations that must not change stdout.
func c03Variant(r *gen.Rand, c *C03Case, name string) *C03Case {
	js, _ := json.Marshal(c)
	var n C03Case
	_ = json.Unmarshal(js, &n)
	n.Variant = name
	switch name {
	case "relocate":
		// move the whole tree two levels down and invoke from there
		for i := range n.World.Files {
			n.World.Files[i].Path = "moved/deeper/" + n.World.Files[i].Path
		}
		for i := range n.World.Links {
			n.World.Links[i].Path = "moved/deeper/" + n.World.Links[i].Path
			if strings.HasPrefix(n.World.Links[i].Target, "@ABS@/") {
				n.World.Links[i].Target = "@ABS@/moved/deeper/" + strings.TrimPrefix(n.World.Links[i].Target, "@ABS@/")
			}
		}
		for i := range n.World.Dirs {
			n.World.Dirs[i] = "moved/deeper/" + n.World.Dirs[i]
		}
		n.Cwd = "moved/deeper/" + n.Cwd
	case "absolute-input":
		for i, in := range n.Inputs {
			if !strings.HasPrefix(in, "@ABS@/") {
				n.Inputs[i] = "@ABS@/" + filepath.Join(n.Cwd, in)
			}
		}
		n.buildArgs()
	case "noise":
		dirs := append([]string{}, n.World.Dirs...)
		sort.Strings(dirs)
		for _, d := range dirs {
			b := "noise: true\n"
			n.World.Files = append(n.World.Files, procsim.File{Path: d + "/zz-noise.yaml", Raw: &b}, procsim.File{Path: d + "/README.md", Raw: &b}, procsim.File{Path: d + "/a.b.c.d.e.txt", Raw: &b})
		}
	case "parent-directive":
		// express the filename chain by $parent and rename every layer
		if !n.Linear {
			return nil
		}
		var chain []int
		for i, f := range n.World.Files {
			if strings.HasSuffix(f.Path, ".txt") || strings.HasSuffix(f.Path, ".bak") || strings.Contains(f.Path, "unrelated") {
				continue
			}
			if len(f.Docs) > 0 {
				if m, ok := f.Docs[0].V.(map[string]any); ok && m["wrong_neighbour"] != nil {
					continue // not part of the chain
				}
			}
			chain = append(chain, i)
		}
		sort.Slice(chain, func(a, b int) bool {
			return strings.Count(n.World.Files[chain[a]].Path, ".") < strings.Count(n.World.Files[chain[b]].Path, ".")
		})
		prev := ""
		var top string
		extLike := r.Chance(0.4)
		for k, i := range chain {
			f := &n.World.Files[i]
			e := procsim.Ext(f.Path)
			nm := fmt.Sprintf("ren%d", k)
			if extLike && k > 0 && k < len(chain)-1 {
				// a layer NAME whose last component is spelled like a format:
				// "ren1.json" is a layer name, stored in ren1.json.<ext>
				nm += "." + r.Pick("json", "yaml", "toml", "yml", "jsonl")
			}
			f.Path = filepath.Join(filepath.Dir(f.Path), nm+"."+e)
			if m, ok := f.Docs[0].V.(map[string]any); ok && prev != "" {
				m["$parent"] = prev
			}
			prev = nm
			top = f.Path
		}
		origExt := procsim.Ext(n.Inputs[0])
		rp, _ := filepath.Rel(n.Cwd, top)
		n.Inputs = []string{strings.TrimSuffix(rp, "."+procsim.Ext(rp)) + "." + origExt}
		if n.Format == "" {
			n.Format = origExt
			if n.Format == "yml" {
				n.Format = "yaml"
			}
			if n.Format == "jsonl" {
				n.Format = "json"
			}
		}
		n.buildArgs()
	}
	return &n
}

func c03Candidates(c *C03Case) []*C03Case {
	var out []*C03Case
	clone := func() *C03Case {
		js, _ := json.Marshal(c)
		var n C03Case
		_ = json.Unmarshal(js, &n)
		return &n
	}
	isInput := func(p string) bool {
		for _, in := range c.Inputs {
			if filepath.Base(in) == filepath.Base(p) {
				return true
			}
		}
		return p == c.FaultPath
	}
	for i, f := range c.World.Files {
		if isInput(f.Path) {
			continue
		}
		n := clone()
		n.World.Files = append(n.World.Files[:i], n.World.Files[i+1:]...)
		out = append(out, n)
	}
	if len(c.Inputs) > 1 {
		for i := range c.Inputs {
			n := clone()
			n.Inputs = append(n.Inputs[:i], n.Inputs[i+1:]...)
			n.buildArgs()
			out = append(out, n)
		}
	}
	if c.Format != "json" {
		n := clone()
		n.Format = "json"
		n.buildArgs()
		out = append(out, n)
	}
	if c.Verbose != "" {
		n := clone()
		n.Verbose = ""
		n.buildArgs()
		out = append(out, n)
	}
	if c.Sched.Mode != "Asc" {
		n := clone()
		n.Sched = wire.Sched{Mode: "Asc"}
		out = append(out, n)
	}
	for fi, f := range c.World.Files {
		if len(f.Docs) > 1 {
			for d := range f.Docs {
				n := clone()
				n.World.Files[fi].Docs = append(n.World.Files[fi].Docs[:d], n.World.Files[fi].Docs[d+1:]...)
				out = append(out, n)
			}
		}
		for d := range f.Docs {
			for _, s := range gen.Simpler(f.Docs[d].V) {
				n := clone()
				n.World.Files[fi].Docs[d] = wire.Tree{V: s}
				out = append(out, n)
			}
		}
	}
	return out
}

// c03Known names the known-finding predicate a case satisfies.
func c03Known(c *C03Case, o *c03Obs) string {
	if o == nil || o.Outcome == nil || o.Clause != "failed-although-model-resolves" {
		return ""
	}
	if !strings.Contains(o.Outcome.Stderr, "path escapes from parent") {
		return ""
	}
	// some load of the chain is reached through a symlink with an absolute target
	for _, l := range c.World.Links {
		if !strings.HasPrefix(l.Target, "@ABS@/") && !filepath.IsAbs(l.Target) {
			continue
		}
		for _, ld := range o.Loads {
			if ld == l.Path || strings.HasPrefix(ld, l.Path+"/") {
				return "c03-absolute-symlink-layer"
			}
		}
	}
	return ""
}

// c03Sentinel is the canonical input of the listed known finding.
func c03Sentinel() *C03Case {
	c := &C03Case{Cwd: c03Dir, Format: "json", Sched: wire.Sched{Mode: "Asc"}}
	c.World.Dirs = []string{c03Dir}
	c.World.Files = []procsim.File{
		{Path: c03Dir + "/app.yaml", Docs: treeDocs(map[string]any{"a": 1})},
		{Path: c03Dir + "/app.c.yaml", Docs: treeDocs(map[string]any{"b": 2})},
	}
	c.World.Links = []procsim.Link{{Path: c03Dir + "/lnk.yaml", Target: "@ABS@/" + c03Dir + "/app.c.yaml"}}
	c.Inputs = []string{"lnk.yaml"}
	c.buildArgs()
	return c
}

// RunC03 is the check for property C03.
func RunC03(e *Env) (int, error) {
	ev := e.Ev
	pool := libsim.NewPool(e.Tree.Worker("inst"), e.Workers, workerAS)
	defer pool.Close()
	n := e.N(1500, 40000)
	faultsPerWorld := e.Pick(2, 7)

	fn := func(run int64) harness.RunResult {
		r := gen.New(e.Seed, "C03", run)
		c := genC03(r)
		mk := func(cs *C03Case, o *c03Obs) harness.RunResult {
			return harness.RunResult{Violation: &harness.Violation{Property: "C03", Check: "layout", Clause: o.Clause, Seed: e.Seed, Run: run, Case: cs, Observed: o}}
		}
		obs, err := judgeC03(e, pool, c, "run", run)
		if err != nil {
			return harness.RunResult{Err: err}
		}
		if obs.Outcome != nil {
			e.Log(run, c, obs.Clause, obs.Loads, obs.Outcome.Status, obs.Outcome.Stdout, obs.Outcome.Stderr, obs.Outcome.Sig)
		} else {
			e.Log(run, c, obs.Clause, obs.Loads)
		}
		key := ""
		if obs.Chain >= 2 && !obs.Ambiguous {
			js, _ := json.Marshal(c)
			key = string(js)
			ev.Sample(map[string]any{"args": c.Args, "shape": c.Shape, "model_loads": obs.Loads})
		}
		ev.Eval(key)
		for _, s := range c.Shape {
			ev.Count("shape."+s, 1)
		}
		if obs.Ambiguous {
			ev.Count("ambiguous_layouts_skipped", 1)
			return harness.RunResult{}
		}
		if obs.ModelErr {
			ev.Count("model_expects_error", 1)
		}
		if obs.Outcome != nil {
			ev.Distinct("outcomes", fmt.Sprintf("%d|%s", obs.Outcome.Status, obs.Outcome.Stdout))
			if obs.Outcome.Sig != "" {
				ev.Distinct("schedules", obs.Outcome.Sig)
			}
		}
		if obs.Clause != "" {
			return mk(c, obs)
		}
		if obs.ModelErr || obs.Outcome == nil || obs.Outcome.Status != 0 {
			return harness.RunResult{}
		}
		baseline := obs.Outcome.Stdout
		// metamorphic perturbations of the disk that must not matter
		for _, vn := range []string{"relocate", "absolute-input", "noise", "parent-directive"} {
			if !r.Chance(0.5) && vn != "parent-directive" {
				continue
			}
			v := c03Variant(r, c, vn)
			if v == nil {
				continue
			}
			o2, err := judgeC03(e, pool, v, "var-"+vn, run)
			if err != nil {
				return harness.RunResult{Err: err}
			}
			ev.Eval("")
			ev.Count("variant."+vn, 1)
			if o2.Clause != "" {
				return mk(v, o2)
			}
			v.Baseline = &baseline
			if c03VariantDiffers(v, o2) {
				return mk(v, o2)
			}
		}
		// fault sweep over the named layers of the chain
		var named []string
		seen := map[string]bool{}
		for _, l := range obs.Named {
			if !seen[l] {
				seen[l] = true
				named = append(named, l)
			}
		}
		nNamed := len(named)
		for _, l := range obs.Wild {
			if !seen[l] {
				seen[l] = true
				named = append(named, l)
			}
		}
		for k := 0; k < faultsPerWorld && len(named) > 0; k++ {
			fc := *c
			fc.Fault = c03Faults[(int(run)+k*3+r.Intn(len(c03Faults)))%len(c03Faults)]
			pick := r.Intn(len(named))
			fc.FaultPath = named[pick]
			if pick >= nNamed && fc.Fault == "delete" {
				fc.Fault = "truncate-to-garbage"
			}
			o3, err := judgeC03(e, pool, &fc, "fault", run*10+int64(k))
			if err != nil {
				return harness.RunResult{Err: err}
			}
			ev.Eval("")
			if o3.Fired {
				ev.Count("fault_fired."+fc.Fault, 1)
			} else {
				ev.Count("fault_not_reached."+fc.Fault, 1)
			}
			if o3.Clause != "" {
				return mk(&fc, o3)
			}
		}
		return harness.RunResult{}
	}

	finish := func(v *harness.Violation) (*harness.Violation, string) {
		c := v.Case.(*C03Case)
		if o0, ok := v.Observed.(*c03Obs); ok {
			if key := c03Known(c, o0); key != "" {
				return v, key
			}
		}
		o, err := judgeC03(e, pool, c, "confirm", v.Run)
		if err == nil {
			c03VariantDiffers(c, o)
		}
		if err != nil || o.Clause != v.Clause {
			v.Note = "did not reproduce on re-execution"
			return v, ""
		}
		k := 0
		min, used := harness.Shrink(c, c03Candidates, func(cand *C03Case) bool {
			k++
			if cand.Baseline != nil {
				return false // pair clauses are reported as found (the baseline belongs to the unshrunk pair)
			}
			o, err := judgeC03(e, pool, cand, "shrink", v.Run*1000+int64(k))
			return err == nil && o.Clause == v.Clause
		}, 200)
		o, _ = judgeC03(e, pool, min, "final", v.Run)
		if o != nil {
			c03VariantDiffers(min, o)
		}
		v.Case, v.Shrunk, v.ShrinkExecs = min, true, used
		if o != nil {
			v.Observed = o
		}
		return v, ""
	}

	t0 := time.Now()
	{
		c := c03Sentinel()
		o, err := judgeC03(e, pool, c, "sentinel", 0)
		if err != nil {
			return 0, err
		}
		ev.Eval("")
		if o.Clause != "" {
			v := &harness.Violation{Property: "C03", Check: "layout", Clause: o.Clause, Seed: e.Seed, Run: -1, Case: c, Observed: o}
			if e.Report(v, c03Known(c, o)) {
				return 1, nil
			}
		}
	}
	viol, err := e.Drive(n, fn, finish)
	ev.Coverage["rule"] = "each run builds a directory of 1-4 chained layer files (any mix of yaml/yml/json/jsonl, optional sub-directory) with one variation ($parent name / list / dot-bounded wildcard / list mixing wildcards and plain names / false / null / chain / invalid, file symlink — also reached through a directory link whose parent is elsewhere —, directory symlink, missing middle layer, second document carrying the directive, diamond, shared layer linked twice, twin chains with identical file names in two directories), odd names and directories, noise files, debug logging (-v / BKL_DEBUG) in 10% and escaped-dollar spellings in 6% of the runs, 1-2 command-line inputs, virtual extension, -P, -f; runs the instrumented bkl (findFile's stat-probe order seeded); oracle 1 = reference resolver (post-order load list) + the real MergeDocument/Output applied to those loads in a fresh parser; oracle 2 = disk perturbations that must not matter (relocation, absolute input path, noise files, filename chain re-expressed with $parent and renamed); oracle 3 = per-layer fault sweep (delete, dangling link, directory, garbage, openat EIO/EACCES, read EIO) must be fatal; non-trivial = chain of >= 2 loads; distinct = canonical case"
	ev.Coverage["loop_seconds"] = time.Since(t0).Seconds()
	ev.Assumptions = []string{
		"layouts in which a layer name has two providers are detected by the model and skipped (the property excludes them)",
		"the order / renaming / $parent-equivalence half is a pure function of the layout and is decided by reference-model comparison on the same runs (DESIGN.md 1.3)",
		"an injected syscall fault counts only when strace reports it fired",
		"scalars are restricted to values that YAML and JSON decode identically (format independence is C04, not claimed)",
	}
	components(ev, e.Tree, []string{"instrumented bkl binary (seeded map order in findFile), real filesystem, strace injection; reference fold through package bkl's MergeDocument/Output"}, []string{})
	return viol, err
}

func init() {
	replayers["C03/layout"] = func(e *Env, raw []byte) (string, any, error) {
		var v struct {
			Clause string  `json:"clause"`
			Run    int64   `json:"run"`
			Case   C03Case `json:"case"`
		}
		if err := json.Unmarshal(raw, &v); err != nil {
			return "", nil, err
		}
		pool := libsim.NewPool(e.Tree.Worker("inst"), 1, workerAS)
		defer pool.Close()
		o, err := judgeC03(e, pool, &v.Case, "replay", v.Run)
		if err != nil {
			return "", nil, err
		}
		c03VariantDiffers(&v.Case, o)
		if o.Clause != v.Clause {
			return "", o, nil
		}
		return o.Clause, o, nil
	}
}
