package checks

import (
	"encoding/json"
	"fmt"
	"os"
	"path/filepath"
	"strings"

	"verif/internal/gen"
	"verif/internal/libsim"
	"verif/internal/procsim"
	"wire"
)

// ProcStepBudget is the evaluator-step budget of instrumented CLI runs: the
// deterministic, machine-independent statement of "hang".
const ProcStepBudget = 50_000_000

// withWorld materialises w under a fresh root, calls fn, removes the root.
func withWorld(e *Env, tag string, run int64, w *procsim.World, fn func(root string) error) error {
	root := filepath.Join(e.Tree.Root, "worlds", fmt.Sprintf("%s-%s-%d", e.Prop, tag, run))
	_ = os.RemoveAll(root)
	if err := w.Materialise(root); err != nil {
		return &libsim.InfraError{Msg: err.Error()}
	}
	_ = os.MkdirAll(filepath.Join(root, "tmp"), 0o755)
	_ = os.MkdirAll(filepath.Join(root, "bin"), 0o755)
	defer os.RemoveAll(root)
	return fn(root)
}

// toolPath resolves an invocation's binary.
func toolPath(e *Env, kind, tool string) string { return e.Tree.Tool(kind, tool) }

func runInv(e *Env, root string, tool string, inv *procsim.Invocation) (*procsim.Outcome, error) {
	i2 := *inv
	i2.Binary = toolPath(e, inv.Kind, tool)
	if tool == "worker-stock" {
		// the library driver (bkl's public API behind a JSON request on stdin)
		i2.Binary = e.Tree.Worker("stock")
	}
	if i2.Kind == "inst" && !e.Tree.Instrumented {
		i2.Kind = "stock"
	}
	out, err := procsim.Run(root, &i2)
	if err != nil {
		return nil, &libsim.InfraError{Msg: err.Error()}
	}
	return out, nil
}

func treeDocs(docs ...any) []wire.Tree {
	out := make([]wire.Tree, len(docs))
	for i, d := range docs {
		out[i] = wire.Tree{V: d}
	}
	return out
}

// pickExt picks a supported extension able to represent docs.
func pickExt(r *gen.Rand, docs []any, allowTOML bool) string {
	ext := r.Pick("yaml", "yaml", "json", "json", "yml", "toml", "jsonl")
	if ext == "toml" {
		if !allowTOML {
			return "yaml"
		}
		if _, ok := gen.StreamText("toml", docs); !ok {
			return "json"
		}
	}
	return ext
}

// mutateBytes applies one storage fault to file content.
func mutateBytes(r *gen.Rand, s string) (string, string) {
	b := []byte(s)
	if len(b) == 0 {
		return "\x00\xff{", "random-bytes"
	}
	switch r.Intn(9) {
	case 8:
		// the same text in another encoding, as editors on other platforms
		// write it: byte-order marks, UTF-16 / UTF-32, sometimes with a byte
		// too many or too few
		var out []byte
		kind := r.Pick("utf8-bom", "utf16le-bom", "utf16be-bom", "utf32le-bom", "utf32be-bom", "utf16le-bom", "utf32le-bom")
		switch kind {
		case "utf8-bom":
			out = append([]byte{0xEF, 0xBB, 0xBF}, b...)
		default:
			wide, big := 2, strings.Contains(kind, "be")
			if strings.HasPrefix(kind, "utf32") {
				wide = 4
			}
			unit := func(c rune) []byte {
				u := make([]byte, wide)
				for k := 0; k < wide; k++ {
					sh := uint(8 * k)
					if big {
						sh = uint(8 * (wide - 1 - k))
					}
					u[k] = byte(uint32(c) >> sh)
				}
				return u
			}
			out = unit(0xFEFF)
			for _, c := range s {
				if c > 0xFFFF && wide == 2 {
					c = '?'
				}
				out = append(out, unit(c)...)
			}
		}
		switch r.Intn(4) {
		case 0:
			out = append(out, '\n') // a tool that appends one byte
		case 1:
			out = out[:len(out)-1] // a copy cut one byte short
		}
		return string(out), "encoding:" + kind
	case 7:
		return r.Pick("", "\n", " ", "---\n", "null\n", "[]\n", "\"x\"\n", "---\n---\n"), "emptied"
	case 0:
		k := r.Intn(len(b))
		return string(b[:k]), "torn-write"
	case 1:
		k := r.Intn(len(b))
		b[k] ^= 1 << uint(r.Intn(8))
		return string(b), "bit-flip"
	case 2:
		k := r.Intn(len(b) + 1)
		ins := []byte(r.Pick("{", "}", "[", "]", ":", "\"", "\n", "- ", "$", "\x00", "\t", "---\n", "&a ", "*a", "<<: ", "!!", "'", "=", "[[x]]\n", "\xff"))
		return string(append(append(append([]byte{}, b[:k]...), ins...), b[k:]...)), "insert"
	case 3:
		k := r.Intn(len(b))
		n := r.Range(1, 8)
		if k+n > len(b) {
			n = len(b) - k
		}
		return string(append(append([]byte{}, b[:k]...), b[k+n:]...)), "lost-span"
	case 4:
		k := r.Intn(len(b))
		n := r.Range(1, 16)
		if k+n > len(b) {
			n = len(b) - k
		}
		return string(append(append(append([]byte{}, b[:k+n]...), b[k:k+n]...), b[k+n:]...)), "duplicated-span"
	case 5:
		n := r.Range(1, 40)
		rb := make([]byte, n)
		for i := range rb {
			rb[i] = byte(r.Intn(256))
		}
		return string(rb), "random-bytes"
	default:
		k := r.Intn(len(b))
		return string(b[:k]) + string(b[k:]) + string(b[:k]), "appended-prefix"
	}
}

func jsonStreamOK(s string) bool {
	dec := json.NewDecoder(strings.NewReader(s))
	for {
		var v any
		err := dec.Decode(&v)
		if err != nil {
			return err.Error() == "EOF"
		}
	}
}
