package checks

import (
	"encoding/json"
	"fmt"
	"os"

	"verif/internal/build"
	"verif/internal/gen"
	"verif/internal/harness"
)

// Spec describes one check.
type Spec struct {
	Want build.Want
	Run  func(*Env) (int, error)
}

// Registry maps property ids to checks.
var Registry = map[string]Spec{
	"C18": {Want: build.Want{StockCLIs: true, InstCLIs: true, WorkerStock: true}, Run: RunC18}, // the instrumented CLI only for the two-provider sentinel (fixed probe order)
	"C19": {Want: build.Want{WorkerInst: true}, Run: RunC19},
	"C02": {Want: build.Want{WorkerInst: true}, Run: RunC02},
	"C03": {Want: build.Want{StockCLIs: true, InstCLIs: true, WorkerInst: true}, Run: RunC03},
	"C08": {Want: build.Want{StockCLIs: true, InstCLIs: true}, Run: RunC08},
	"C09": {Want: build.Want{StockCLIs: true, WorkerInst: true, WorkerRace: true, WorkerStock: true}, Run: RunC09},
	"C20": {Want: build.Want{StockCLIs: true, InstCLIs: true, Stub: true}, Run: RunC20},
}

// Transparency is set by transparency.go.
var Transparency = func(e *Env) error { return nil }

// Replay re-executes a replay file against a fresh build of /repo.
func Replay(verifDir, repoDir, path string) (int, error) {
	raw, err := os.ReadFile(path)
	if err != nil {
		return 2, err
	}
	var head struct {
		Property string `json:"property"`
		Check    string `json:"check"`
	}
	if err := json.Unmarshal(raw, &head); err != nil {
		return 2, err
	}
	rp, ok := replayers[head.Property+"/"+head.Check]
	if !ok {
		return 2, fmt.Errorf("no replayer for %s/%s", head.Property, head.Check)
	}
	spec := Registry[head.Property]
	tree, err := build.Make(verifDir, repoDir, spec.Want)
	if err != nil {
		return 2, err
	}
	defer tree.Close()
	ctx := &harness.Ctx{Prop: head.Property, Tier: "quick", VerifDir: verifDir, RepoDir: repoDir, Workers: 2}
	ctx.Ev = harness.NewEvidence(head.Property, "quick", 0)
	clause, observed, err := rp(&Env{Ctx: ctx, Tree: tree}, raw)
	if err != nil {
		return 2, err
	}
	js, _ := json.MarshalIndent(observed, "", " ")
	if clause != "" {
		if cl, ok := classifiers[head.Property]; ok {
			if key := cl(raw, observed); key != "" {
				known, _ := harness.LoadFindings(verifDir)
				for _, f := range known {
					if f.Kind == "finding" && f.Match == key {
						fmt.Printf("KNOWN-FINDING: property=%s %s\n", head.Property, f.What)
					}
				}
			}
		}
		fmt.Printf("REPRODUCED property=%s clause=%s\n%s\n", head.Property, clause, js)
		return 1, nil
	}
	fmt.Printf("NOT-REPRODUCED property=%s (the recorded clause does not fail on the current tree)\n", head.Property)
	return 0, nil
}

// replayers re-execute one materialised case and return the failing clause
// ("" if none).
var replayers = map[string]func(e *Env, raw []byte) (string, any, error){}

// classifiers name the known-finding predicate a reproduced case satisfies.
var classifiers = map[string]func(raw []byte, observed any) string{
	"C08": func(raw []byte, observed any) string {
		var v struct {
			Case C08Case `json:"case"`
		}
		if json.Unmarshal(raw, &v) != nil {
			return ""
		}
		o, _ := observed.(*c08Obs)
		return c08Known(&v.Case, o)
	},
	"C03": func(raw []byte, observed any) string {
		var v struct {
			Case C03Case `json:"case"`
		}
		if json.Unmarshal(raw, &v) != nil {
			return ""
		}
		o, _ := observed.(*c03Obs)
		return c03Known(&v.Case, o)
	},
	"C18": func(raw []byte, observed any) string {
		var v struct {
			Case C18Case `json:"case"`
		}
		if json.Unmarshal(raw, &v) != nil {
			return ""
		}
		o, _ := observed.(*c18Obs)
		return c18Known(&v.Case, o)
	},
}

// Selftest is filled in by selftest.go.
var Selftest = func(verifDir, repoDir string) error { return fmt.Errorf("not built") }

// GenCase renders the case a check generates for one run (debugging aid).
func GenCase(prop string, seed, run int64) string {
	var v any
	switch prop {
	case "C08":
		v = genC08(gen.New(seed, "C08", run))
	case "C03":
		v = genC03(gen.New(seed, "C03", run))
	case "C19":
		v = genC19(gen.New(seed, "C19", run), 8)
	case "C02":
		v = genC02(gen.New(seed, "C02", run), 3)
	default:
		return "no generator for " + prop
	}
	js, _ := json.MarshalIndent(v, "", " ")
	return string(js)
}
