package checks

import (
	"encoding/json"
	"fmt"
	"os"
	"path/filepath"
	"strings"
	"time"

	"verif/internal/gen"
	"verif/internal/harness"
	"verif/internal/libsim"
	"wire"
)

// C19Case is a materialised history on one parser.
type C19Case struct {
	Sched   wire.Sched        `json:"schedule"`
	Files   map[string]string `json:"files,omitempty"`
	Ops     []wire.Op         `json:"ops"`
	Planted []string          `json:"planted,omitempty"`
	// DebugP: the observed parser logs (SetDebug(true)); the shadow and the
	// fresh parsers do not
	DebugP bool `json:"debug_observed_parser,omitempty"`
}

// isStateOp: calls that change what a later output depends on (merges, and a
// change of the process environment between two calls); they are replayed on
// the shadow parser and on every fresh parser.
func isStateOp(op string) bool { return isMergeOp(op) || op == "Setenv" }

// genStream draws the merge calls of a history: a base stream, further
// layers derived from it, optionally a layered file chain.
func genStream(r *gen.Rand, cfg gen.ProgCfg, files map[string]string, maxMerges int, allowShare bool) ([]wire.Op, []string) {
	var planted []string
	child := gen.ChildCfg{Tree: cfg.Tree, Edits: r.Range(1, 3), PUseless: 0.03}
	var merges []wire.Op
	// base stream (now and then a long one)
	nBase := r.Range(1, 3)
	if r.Chance(0.03) {
		nBase = r.Range(8, 12)
		if nBase > maxMerges-1 {
			nBase = maxMerges - 1
		}
		if nBase < 1 {
			nBase = 1
		}
	}
	var prev []string
	var prevTrees []any
	for i := 0; i < nBase; i++ {
		doc, pl := cfg.Program(r)
		planted = append(planted, pl...)
		if m, ok := doc.(map[string]any); ok {
			m["id"] = fmt.Sprintf("d%d", i)
			if r.Chance(0.15) && selfMatchRefs(r, m, map[string]any{"id": m["id"]}) {
				planted = append(planted, "crossdoc-form-matching-own-document")
			}
			if r.Chance(0.08) {
				// the whole of the document it sits in, selected by pattern and
				// merged below one of its own keys
				host := map[string]any{"$merge": map[string]any{"$match": map[string]any{"id": m["id"]}}}
				if r.Chance(0.5) {
					host["own"] = 1
				}
				if r.Chance(0.3) {
					host["self_tmpl"] = map[string]any{"n": 1}
				}
				m["self_tmpl"] = host
				planted = append(planted, "whole-own-document-merged-below-a-key")
			}
			if i > 0 && r.Chance(0.3) {
				// cross-document reference into document 0
				if t0, ok := prevTrees[0].(map[string]any); ok {
					ks := gen.SortedKeys(t0)
					var plain []string
					for _, k := range ks {
						if !strings.HasPrefix(k, "$") && !strings.Contains(k, ".") {
							plain = append(plain, k)
						}
					}
					if len(plain) > 0 {
						k := gen.PickAny(r, plain)
						if r.Chance(0.5) {
							m["xref"] = map[string]any{"$replace": map[string]any{"$match": map[string]any{"id": "d0"}, "$path": k}}
						} else {
							m["xref"] = map[string]any{"$merge": []any{map[string]any{"id": "d0"}, k}}
						}
						planted = append(planted, "crossdoc")
					}
				}
			}
			if i > 0 && r.Chance(0.1) {
				// an evaluation failure part-way through the stream
				m["late"] = r.Pick("$required", "$merge:no.such", `$"{no.such}"`)
				planted = append(planted, "evalfail")
			}
		}
		id := fmt.Sprintf("L0|doc%d", i)
		op := wire.Op{Op: "MergeDocument", ID: id, Data: &wire.Tree{V: doc}}
		if m, ok := doc.(map[string]any); ok && allowShare && r.Chance(0.12) {
			// a caller that builds the document in Go and uses one sub-tree
			// object in two places
			var cands []string
			for _, k := range gen.SortedKeys(m) {
				switch m[k].(type) {
				case map[string]any, []any:
					if !strings.HasPrefix(k, "$") {
						cands = append(cands, k)
					}
				}
			}
			if len(cands) > 0 {
				k := gen.PickAny(r, cands)
				m["shared_twin"] = wire.Clone(m[k])
				op.Share = append(op.Share, [2][]string{{k}, {"shared_twin"}})
				planted = append(planted, "shared-object")
			}
		}
		merges = append(merges, op)
		prev = append(prev, id)
		prevTrees = append(prevTrees, doc)
	}
	// a document nested deeper than any recursion guard, with a reference that
	// jumps to a subtree near its bottom
	if r.Chance(0.012) {
		levels := gen.PickAny(r, []int{990, 1005, 1100, 1500})
		var v any = map[string]any{"$merge": "t", "own": 1, "l": []any{1, 2}}
		for i := 0; i < levels; i++ {
			v = map[string]any{"a": v}
		}
		path := "deep" + strings.Repeat(".a", levels-r.Range(0, 20))
		doc := map[string]any{"a_ref": map[string]any{"$replace": path}, "deep": v, "t": map[string]any{"x": 1, "l": []any{3}}, "id": fmt.Sprintf("d%d", nBase)}
		id := fmt.Sprintf("L0|doc%d", nBase)
		merges = append(merges, wire.Op{Op: "MergeDocument", ID: id, Data: &wire.Tree{V: doc}})
		prev = append(prev, id)
		prevTrees = append(prevTrees, map[string]any{"t": map[string]any{"x": 1}, "id": fmt.Sprintf("d%d", nBase)})
		nBase++
		planted = append(planted, "very-deep")
	}
	// cross-document references in either direction (a forward reference is
	// evaluated while its target is still unevaluated), some of them at
	// subtrees that themselves hold directives
	if nBase >= 2 && r.Chance(0.5) {
		src := r.Intn(nBase)
		dst := r.Intn(nBase)
		if dst == src {
			dst = (src + 1) % nBase
		}
		sm, ok1 := prevTrees[src].(map[string]any)
		dm, ok2 := prevTrees[dst].(map[string]any)
		if ok1 && ok2 {
			var keys, mapKeys []string
			for _, k := range gen.SortedKeys(dm) {
				if strings.HasPrefix(k, "$") || strings.Contains(k, ".") || k == "id" {
					continue
				}
				keys = append(keys, k)
				if _, isMap := dm[k].(map[string]any); isMap {
					mapKeys = append(mapKeys, k)
				}
			}
			if len(mapKeys) > 0 && r.Chance(0.5) {
				// a template in the target that merges one of its siblings
				dm["tmpl"] = map[string]any{"$merge": gen.PickAny(r, mapKeys), "tmpl_own": 1}
				keys = append(keys, "tmpl")
				if r.Chance(0.7) {
					keys = []string{"tmpl"}
				}
			}
			if len(keys) > 0 {
				k := gen.PickAny(r, keys)
				pat := map[string]any{"id": fmt.Sprintf("d%d", dst)}
				switch r.Intn(5) {
				case 0:
					sm["xref2"] = map[string]any{"$replace": map[string]any{"$match": pat, "$path": k}}
				case 1:
					sm["xref2"] = map[string]any{"$replace": []any{pat, k}}
				case 2:
					sm["xref2"] = map[string]any{"$merge": map[string]any{"$match": pat, "$path": k}, "local": 1}
				case 3:
					sm["xref2"] = fmt.Sprintf("$replace:[{id: d%d}, %s]", dst, k)
				default:
					sm["xref2"] = fmt.Sprintf("$merge:[{id: d%d}, %s]", dst, k)
				}
				planted = append(planted, "crossdoc-any-direction")
			}
		}
	}
	// further layers
	for l := 1; l <= r.Range(0, 2); l++ {
		var ids []string
		var trees []any
		for d := 0; d < r.Range(1, 2); d++ {
			target := r.Intn(len(prevTrees))
			patch := child.Child(r, wire.Clone(prevTrees[target]))
			switch r.Intn(6) {
			case 0:
				patch["$match"] = map[string]any{"id": fmt.Sprintf("d%d", r.Intn(nBase))}
			case 1:
				patch["$match"] = nil
			}
			id := fmt.Sprintf("L%d|doc%d", l, d)
			merges = append(merges, wire.Op{Op: "MergeDocument", ID: id, Parents: append([]string{}, prev...), Data: &wire.Tree{V: patch}})
			ids = append(ids, id)
			trees = append(trees, patch)
		}
		prev, prevTrees = ids, trees
	}
	// a layered file chain
	if files != nil && r.Chance(0.25) {
		base, pl := cfg.Program(r)
		planted = append(planted, pl...)
		ext := r.Pick("yaml", "json")
		fileDocs := []any{base}
		if r.Chance(0.08) {
			// a stream of many documents behind the directive-laden first one
			// (more than any batch, pool or "parallel above N" threshold)
			if bm, ok := base.(map[string]any); ok {
				bm["id"] = "f0"
			}
			nDocs := gen.PickAny(r, []int{17, 64, 70, 130, 300})
			for k := 1; k < nDocs; k++ {
				fileDocs = append(fileDocs, map[string]any{"id": fmt.Sprintf("f%d", k), "v": k})
			}
			planted = append(planted, "many-documents")
		}
		if s, ok := gen.StreamText(ext, fileDocs); ok {
			esc := r.Chance(0.3) // the same documents, every "$" spelled as an escape sequence
			if esc {
				s = gen.EscapeDollars(ext, s)
			}
			files["f."+ext] = s
			patch := child.Child(r, wire.Clone(base))
			if r.Chance(0.5) {
				patch["$match"] = nil // keep file documents apart from the stream
			} else if len(fileDocs) > 1 {
				patch["$match"] = map[string]any{"id": "f0"}
			}
			if s2, ok := gen.StreamText("yaml", []any{patch}); ok {
				if esc {
					s2 = gen.EscapeDollars("yaml", s2)
				}
				files["f.g.yaml"] = s2
				op := wire.Op{Op: "MergeFileLayers", Path: "f.g.yaml"}
				pos := r.Intn(len(merges) + 1)
				merges = append(merges[:pos], append([]wire.Op{op}, merges[pos:]...)...)
			}
		}
	}
	if len(merges) > maxMerges {
		merges = merges[:maxMerges]
	}
	return merges, planted
}

// selfMatchRefs respells same-document references ($merge / $replace with a
// path) in the cross-document form, with a pattern that selects the very
// document they sit in: {$match: <pattern>, $path: <path>}.
func selfMatchRefs(r *gen.Rand, v any, pat map[string]any) bool {
	changed := false
	switch x := v.(type) {
	case map[string]any:
		for _, k := range gen.SortedKeys(x) {
			if k == "$merge" || k == "$replace" {
				var path any
				switch p := x[k].(type) {
				case string:
					if p != "" && !strings.ContainsAny(p, "[{$ ") {
						path = p
					}
				case []any:
					ok := len(p) > 0
					for _, e := range p {
						if _, isStr := e.(string); !isStr {
							ok = false
						}
					}
					if ok {
						path = p
					}
				}
				if path != nil && r.Chance(0.6) {
					if r.Chance(0.7) {
						x[k] = map[string]any{"$match": wire.Clone(pat), "$path": path}
					} else {
						x[k] = []any{wire.Clone(pat), path}
					}
					changed = true
				}
				continue
			}
			if selfMatchRefs(r, x[k], pat) {
				changed = true
			}
		}
	case []any:
		for _, e := range x {
			if selfMatchRefs(r, e, pat) {
				changed = true
			}
		}
	}
	return changed
}

// genC19PlainThenFailing: a document without any directive, an output, then a
// layer that brings directives along and FAILS part-way (a useless override,
// a $delete of nothing), then outputs again: whatever the failed merge left
// behind must be evaluated like any other state.
func genC19PlainThenFailing(r *gen.Rand, c *C19Case) {
	tc := gen.DefaultTreeCfg()
	tc.Safe = true
	tc.Strs = []string{"x", "y", "hello", "v1", "prod"}
	base := tc.Map(r, 2)
	base["keep"] = 1
	base["id"] = "d0"
	patch := map[string]any{}
	ks := gen.SortedKeys(base)
	for _, k := range ks {
		if k == "id" {
			continue
		}
		switch r.Intn(4) {
		case 0:
			patch[k] = `$"{keep}-{id}"`
		case 1:
			patch[k] = "$env:VERIF_A"
		case 2:
			patch[k] = map[string]any{"$encode": "json", "$value": "q"}
		}
	}
	patch["zz_new"] = `$"{keep}"`
	// ... and one entry that makes the merge fail
	switch r.Intn(3) {
	case 0:
		patch["keep"] = 1 // useless override
	case 1:
		patch["nosuch_"+gen.PickAny(r, ks)] = "$delete"
	default:
		patch["id"] = []any{"type", "clash"}
		patch["keep"] = 1
	}
	c.Ops = []wire.Op{
		{Op: "MergeDocument", ID: "L0|doc0", Data: &wire.Tree{V: base}},
		genObserve(r, 0),
		{Op: "MergeDocument", ID: "L1|doc0", Parents: []string{"L0|doc0"}, Data: &wire.Tree{V: patch}},
		genObserve(r, 1),
		{Op: "Documents"},
		{Op: "Output", Format: "json"},
	}
	c.Planted = []string{"plain-then-failing-layer"}
}

func genC19(r *gen.Rand, maxCalls int) *C19Case {
	c := &C19Case{Files: map[string]string{}}
	c.Sched = wire.Sched{Mode: "Hash", Seed: r.U64() >> 1, Coin: gen.PickAny(r, []float64{0, 0.5, 1})}
	if r.Chance(0.06) {
		genC19PlainThenFailing(r, c)
		return c
	}
	cfg := gen.AllOn(r)
	if r.Chance(0.3) {
		cfg = gen.SwarmProgCfg(r)
	}
	cfg.PBad = gen.PickAny(r, []float64{0, 0, 0.05})
	cfg.PSelf = gen.PickAny(r, []float64{0, 0, 0, 0.1})
	merges, planted := genStream(r, cfg, c.Files, maxCalls-2, true)
	c.Planted = planted
	// observation calls interleaved
	nObs := r.Range(2, maxCalls-len(merges))
	ops := append([]wire.Op{}, merges...)
	for i := 0; i < nObs; i++ {
		o := genObserve(r, i)
		// bias: observations after at least one merge, some between merges
		pos := r.Range(1, len(ops))
		if r.Chance(0.05) {
			pos = 0 // observing an empty parser is legal too
		}
		ops = append(ops[:pos], append([]wire.Op{o}, ops[pos:]...)...)
	}
	// the process environment changes between two calls
	pEnv := 0.04
	for _, pl := range planted {
		if strings.HasPrefix(pl, "env") {
			pEnv = 0.5
		}
	}
	if r.Chance(pEnv) {
		for k := 0; k < r.Range(1, 2); k++ {
			o := wire.Op{Op: "Setenv", Path: r.Pick("VERIF_A", "VERIF_B", "VERIF_A", "VERIF_UNSET"), Format: r.Pick("changed", "", "7", "va2")}
			pos := r.Range(1, len(ops))
			ops = append(ops[:pos], append([]wire.Op{o}, ops[pos:]...)...)
		}
	}
	c.DebugP = r.Chance(0.08)
	c.Ops = ops
	return c
}

func genObserve(r *gen.Rand, i int) wire.Op {
	format := r.Pick("json", "json", "yaml", "yaml", "json-pretty", "toml", "jsonl")
	if r.Chance(0.03) {
		format = "nope"
	}
	switch r.Intn(10) {
	case 0:
		return wire.Op{Op: "Documents"}
	case 1, 2:
		return wire.Op{Op: "OutputDocuments"}
	case 3, 4:
		w := &wire.WriterFault{}
		switch r.Intn(4) {
		case 0:
			w = &wire.WriterFault{Kind: "fail_at", K: r.Intn(20)}
		case 1:
			w = &wire.WriterFault{Kind: "short", K: r.Intn(20)}
		case 2:
			w = &wire.WriterFault{Kind: r.Pick("eagain_once", "eintr_once"), K: r.Intn(20)}
		}
		if r.Chance(0.2) {
			format = ""
		}
		return wire.Op{Op: "OutputToWriter", Format: format, Writer: w}
	case 5:
		ext := r.Pick("json", "yaml", "toml")
		switch r.Intn(4) {
		case 0:
			return wire.Op{Op: "OutputToFile", Path: fmt.Sprintf("missing/o%d.%s", i, ext), Format: ""}
		case 1:
			return wire.Op{Op: "OutputToFile", Path: "adir." + ext, Format: ""}
		case 2:
			return wire.Op{Op: "OutputToFile", Path: "/dev/full", Format: ext}
		default:
			return wire.Op{Op: "OutputToFile", Path: fmt.Sprintf("o/o%d.%s", i, ext), Format: r.Pick("", ext)}
		}
	default:
		return wire.Op{Op: "Output", Format: format}
	}
}

// c19Request derives the simulated run from a case: task 0 is the parser
// under observation, task 1 the shadow parser that is never asked for output,
// tasks 2.. one fresh parser per output call (merge prefix + that call).
func c19Request(c *C19Case, run int64, cwd string) (*wire.Request, []int) {
	req := &wire.Request{Run: run, Sched: c.Sched, Budget: StepBudget, Cwd: cwd, Env: stdEnv}
	var p, s wire.TaskSpec
	var freshOf []int // op index -> task index
	var fresh []wire.TaskSpec
	var prefix []wire.Op
	for i, op := range c.Ops {
		o := op
		o.Snap = true
		p.Ops = append(p.Ops, o)
		freshOf = append(freshOf, -1)
		if isStateOp(op.Op) {
			m := op
			m.Snap = true
			s.Ops = append(s.Ops, m)
			pm := op
			pm.Snap = false
			prefix = append(prefix, pm)
		} else if isOutputOp(op.Op) {
			f := wire.TaskSpec{Ops: append([]wire.Op{}, prefix...)}
			fo := op
			if fo.Op == "OutputToFile" && strings.HasPrefix(fo.Path, "o/") {
				fo.Path = "o/fresh-" + strings.TrimPrefix(fo.Path, "o/")
			}
			f.Ops = append(f.Ops, fo)
			if op.Op == "OutputToWriter" || op.Op == "OutputToFile" {
				// reference for what a sink must receive: the bytes Output
				// returns for the same format (documented defaults: "" is
				// json-pretty for a writer, the path's extension for a file)
				format := op.Format
				if format == "" && op.Op == "OutputToFile" {
					format = strings.TrimPrefix(filepath.Ext(op.Path), ".")
				}
				if format == "" {
					format = "json-pretty"
				}
				f.Ops = append(f.Ops, wire.Op{Op: "Output", Format: format})
			}
			freshOf[i] = 2 + len(fresh)
			fresh = append(fresh, f)
		}
	}
	p.Debug = c.DebugP
	req.Tasks = append([]wire.TaskSpec{p, s}, fresh...)
	return req, freshOf
}

type c19Verdict struct {
	Clause   string   `json:"clause"`
	Op       int      `json:"op"`
	Got      any      `json:"got,omitempty"`
	Want     any      `json:"want,omitempty"`
	Crashed  bool     `json:"-"`
	NonTriv  bool     `json:"-"`
	Outcomes []string `json:"-"`
}

// judgeC19 evaluates the oracle over the recorded history.
func judgeC19(c *C19Case, tasks []taskOutcome, freshOf []int) c19Verdict {
	P, S := tasks[0], tasks[1]
	v := c19Verdict{}
	sIdx := -1
	lastS := "[]"
	// number of ops of each fresh task = merges before op i + 1
	freshLen := make([]int, len(c.Ops))
	nm := 0
	for i, op := range c.Ops {
		if isStateOp(op.Op) {
			nm++
		}
		freshLen[i] = nm + 1
	}
	outputsSeen := 0
	for i, op := range c.Ops {
		po := P.outcomeOf(i)
		v.Outcomes = append(v.Outcomes, op.Op+":"+po)
		if isStateOp(op.Op) {
			sIdx++
			so := S.outcomeOf(sIdx)
			if po != so {
				return c19Verdict{Clause: "merge-result-differs-after-output", Op: i, Got: po, Want: so}
			}
			if po != "ok" && po != "err" {
				return v // panic / budget / crash: C08's subject
			}
			if sIdx >= len(S.Ops) {
				return v
			}
			// (what a FAILED merge leaves behind is not specified and may
			// depend on the iteration order — but the schedule of a case is
			// stateless (rank = H(seed, site, key)), so the parser that was
			// asked for output and the one that was not must have been left
			// in the same state, and later outputs must agree as well)
			lastS = snapString(S.Ops[sIdx].Docs)
		}
		if isOutputOp(op.Op) {
			F := tasks[freshOf[i]]
			fi := freshLen[i] - 1
			fo := F.outcomeOf(fi)
			if po != fo {
				return c19Verdict{Clause: "output-differs-from-fresh-parser", Op: i, Got: map[string]any{"outcome": po, "err": errOf(P, i)}, Want: map[string]any{"outcome": fo, "err": errOf(F, fi)}}
			}
			if (po == "ok" || po == "err") && i < len(P.Ops) && fi < len(F.Ops) {
				pr, fr := P.Ops[i], F.Ops[fi]
				if bytesOf(pr) != bytesOf(fr) {
					return c19Verdict{Clause: "output-differs-from-fresh-parser", Op: i, Got: short(bytesOf(pr), 600), Want: short(bytesOf(fr), 600)}
				}
				if pr.HasOuts != fr.HasOuts || outsString(pr.Outs) != outsString(fr.Outs) {
					return c19Verdict{Clause: "output-differs-from-fresh-parser", Op: i, Got: short(outsString(pr.Outs), 600), Want: short(outsString(fr.Outs), 600)}
				}
			}
			if (op.Op == "OutputToWriter" || op.Op == "OutputToFile") && fi+1 < len(F.Ops) && i < len(P.Ops) && F.CrashAt < 0 && P.CrashAt < 0 {
				ref, pr := F.Ops[fi+1], P.Ops[i]
				switch {
				case ref.Outcome == "ok" && po == "ok" && pr.Bytes != nil && bytesOf(pr) != bytesOf(ref):
					return c19Verdict{Clause: "sink-received-other-bytes-than-output-returns", Op: i, Got: short(bytesOf(pr), 600), Want: short(bytesOf(ref), 600)}
				case ref.Outcome == "ok" && po == "err" && pr.Bytes != nil && !strings.HasPrefix(bytesOf(ref), strings.TrimRight(bytesOf(pr), "\ufffd")):
					// (a cut inside a multi-byte character arrives here as replacement characters)
					return c19Verdict{Clause: "failed-sink-received-bytes-that-are-no-prefix-of-the-output", Op: i, Got: short(bytesOf(pr), 600), Want: short(bytesOf(ref), 600)}
				case ref.Outcome == "err" && po == "ok":
					return c19Verdict{Clause: "sink-output-succeeded-although-output-fails", Op: i, Got: short(bytesOf(pr), 300), Want: ref.Err}
				}
			}
			outputsSeen++
			if i < len(c.Ops)-1 && len(c.Planted) > 0 {
				v.NonTriv = true
			}
		}
		if po != "ok" && po != "err" {
			// panic / budget / crash: the parser is gone; consistent with
			// the fresh parser (checked above), which is C08's business
			return v
		}
		if i < len(P.Ops) && P.Ops[i].HasDocs {
			got := snapString(P.Ops[i].Docs)
			if got != lastS {
				clause := "documents-changed-by-output"
				if outputsSeen == 0 {
					clause = "documents-differ-from-shadow"
				}
				return c19Verdict{Clause: clause, Op: i, Got: short(got, 800), Want: short(lastS, 800)}
			}
		}
	}
	return v
}

func errOf(t taskOutcome, i int) string {
	if t.CrashAt == i {
		return "worker died: " + t.Crash
	}
	if i < len(t.Ops) {
		return t.Ops[i].Err
	}
	return ""
}

func c19Candidates(c *C19Case) []*C19Case {
	var out []*C19Case
	clone := func() *C19Case {
		js, _ := json.Marshal(c)
		var n C19Case
		_ = json.Unmarshal(js, &n)
		return &n
	}
	referenced := map[string]bool{}
	for _, op := range c.Ops {
		for _, p := range op.Parents {
			referenced[p] = true
		}
	}
	for i := range c.Ops {
		n := clone()
		removed := n.Ops[i]
		n.Ops = append(n.Ops[:i], n.Ops[i+1:]...)
		if removed.Op == "MergeDocument" && referenced[removed.ID] {
			for j := range n.Ops {
				var ps []string
				for _, p := range n.Ops[j].Parents {
					if p != removed.ID {
						ps = append(ps, p)
					}
				}
				n.Ops[j].Parents = ps
			}
		}
		out = append(out, n)
	}
	if c.Sched.Mode != "Asc" {
		n := clone()
		n.Sched = wire.Sched{Mode: "Asc"}
		out = append(out, n)
	}
	for i, op := range c.Ops {
		if op.Writer != nil && op.Writer.Kind != "" {
			n := clone()
			n.Ops[i].Writer = &wire.WriterFault{}
			out = append(out, n)
		}
		if op.Data != nil {
			for _, s := range gen.Simpler(op.Data.V) {
				n := clone()
				n.Ops[i].Data = &wire.Tree{V: s}
				out = append(out, n)
			}
		}
	}
	return out
}

// RunC19 is the check for property C19.
func RunC19(e *Env) (int, error) {
	ev := e.Ev
	pool := libsim.NewPool(e.Tree.Worker("inst"), e.Workers, workerAS)
	defer pool.Close()
	worldRoot := filepath.Join(e.Tree.Root, "c19")
	maxCalls := e.Pick(8, 14)
	n := e.N(6000, 120000)

	exec := func(c *C19Case, run int64, tag string) ([]taskOutcome, []int, *wire.Result, error) {
		dir := filepath.Join(worldRoot, fmt.Sprintf("%s-%d", tag, run))
		if err := writeFiles(dir, c.Files, []string{"o", "adir.json", "adir.yaml", "adir.toml"}); err != nil {
			return nil, nil, nil, &libsim.InfraError{Msg: err.Error()}
		}
		defer os.RemoveAll(dir)
		req, freshOf := c19Request(c, run, dir)
		tasks, res, err := execTasks(pool, req)
		return tasks, freshOf, res, err
	}

	fn := func(run int64) harness.RunResult {
		r := gen.New(e.Seed, "C19", run)
		c := genC19(r, maxCalls)
		tasks, freshOf, res, err := exec(c, run, "run")
		if err != nil {
			return harness.RunResult{Err: err}
		}
		v := judgeC19(c, tasks, freshOf)
		e.Log(run, c, v.Outcomes, v.Clause, res.Probes.Sig, res.Probes.Steps)
		key := ""
		if v.NonTriv {
			js, _ := json.Marshal(c.Ops)
			key = string(js)
		}
		ev.Eval(key)
		if res != nil {
			addProbes(ev, res.Probes)
			if res.Crash {
				ev.Count("worker_crashes", 1)
			}
			ev.Distinct("schedules", fmt.Sprint(res.Probes.Sig))
		}
		for i, op := range c.Ops {
			if op.Writer != nil && op.Writer.Kind != "" && tasks[0].outcomeOf(i) == "err" {
				ev.Count("fault_fired.writer_"+op.Writer.Kind, 1)
			}
			if op.Op == "OutputToFile" && tasks[0].outcomeOf(i) == "err" {
				switch {
				case strings.HasPrefix(op.Path, "missing/"):
					ev.Count("fault_fired.file_missing_dir", 1)
				case strings.HasPrefix(op.Path, "adir."):
					ev.Count("fault_fired.file_is_directory", 1)
				case op.Path == "/dev/full":
					ev.Count("fault_fired.file_dev_full", 1)
				}
			}
			if isOutputOp(op.Op) && op.Writer == nil && op.Op != "OutputToFile" && tasks[0].outcomeOf(i) == "err" {
				ev.Count("fault_fired.evaluation_error_in_output", 1)
			}
			ev.Count("ops."+op.Op, 1)
		}
		for _, t := range tasks {
			for _, o := range t.Ops {
				if o.HasDocs {
					ev.Distinct("states", snapString(o.Docs))
				}
				if o.Aliased {
					ev.Count("probe.aliasing_between_documents", 1)
				}
			}
		}
		if v.NonTriv {
			ev.Sample(map[string]any{"schedule": c.Sched, "ops": c.Ops, "outcomes": v.Outcomes})
		}
		if v.Clause == "" {
			return harness.RunResult{}
		}
		return harness.RunResult{Violation: &harness.Violation{Property: "C19", Check: "history", Clause: v.Clause, Seed: e.Seed, Run: run, Case: c, Observed: v}}
	}

	finish := func(v *harness.Violation) (*harness.Violation, string) {
		c := v.Case.(*C19Case)
		// confirm it reproduces (harness flakiness is not a verdict)
		tasks, freshOf, _, err := exec(c, v.Run, "confirm")
		if err != nil || judgeC19(c, tasks, freshOf).Clause != v.Clause {
			v.Note = "did not reproduce on re-execution"
			return v, ""
		}
		n := 0
		min, used := harness.Shrink(c, c19Candidates, func(cand *C19Case) bool {
			n++
			tasks, freshOf, _, err := exec(cand, v.Run*1000+int64(n), "shrink")
			if err != nil {
				return false
			}
			return judgeC19(cand, tasks, freshOf).Clause == v.Clause
		}, 400)
		tasks, freshOf, _, _ = exec(min, v.Run, "final")
		ver := judgeC19(min, tasks, freshOf)
		v.Case, v.Observed, v.Shrunk, v.ShrinkExecs = min, ver, true, used
		return v, ""
	}

	t0 := time.Now()
	viol, err := e.Drive(n, fn, finish)
	ev.Coverage["rule"] = "histories of <= " + fmt.Sprint(maxCalls) + " calls (MergeDocument/MergeFileLayers/Documents/Output/OutputDocuments/OutputToWriter/OutputToFile) generated from the seed over directive-laden single and multi-document streams with layering, cross-document references, writer/file faults, evaluation failures part-way, changes of the process environment between calls (Setenv), debug logging on the observed parser (8%), layer files with every $ spelled as an escape (30% of file chains); each run executes the history on parser P, the merge calls only on a shadow parser S, and every output call on a fresh parser; non-trivial = at least one output call followed by a further call on documents with at least one planted directive; distinct = canonical op list"
	ev.Coverage["loop_seconds"] = time.Since(t0).Seconds()
	ev.Coverage["worker_crashes"] = pool.Crashes.Load()
	ev.Assumptions = []string{
		"map iteration order inside bkl is controlled through the generated seam (Hash mode, one seed per run); order inside yaml.v3/go-toml/encoding/json is not (their encoders sort keys)",
		"the history ends at the first failing merge call: the property does not specify the state after a failed merge",
		"panics, step-budget exhaustion and worker deaths are compared as outcomes (same on P and on the fresh parser), their existence is C08's subject",
	}
	components(ev, e.Tree, []string{"package bkl (instrumented copy of the working tree): Parser, Document, merge, process1/2, repeat, output, all format codecs", "real files for MergeFileLayers/OutputToFile, /dev/full"}, []string{"io.Writer passed to OutputToWriter (fault-injecting writer)"})
	return viol, err
}

func init() {
	replayers["C19/history"] = func(e *Env, raw []byte) (string, any, error) {
		var v struct {
			Clause string  `json:"clause"`
			Run    int64   `json:"run"`
			Case   C19Case `json:"case"`
		}
		if err := json.Unmarshal(raw, &v); err != nil {
			return "", nil, err
		}
		pool := libsim.NewPool(e.Tree.Worker("inst"), 1, workerAS)
		defer pool.Close()
		dir := filepath.Join(e.Tree.Root, "c19-replay")
		if err := writeFiles(dir, v.Case.Files, []string{"o", "adir.json", "adir.yaml", "adir.toml"}); err != nil {
			return "", nil, err
		}
		req, freshOf := c19Request(&v.Case, v.Run, dir)
		tasks, _, err := execTasks(pool, req)
		if err != nil {
			return "", nil, err
		}
		ver := judgeC19(&v.Case, tasks, freshOf)
		if ver.Clause != v.Clause {
			return "", ver, nil
		}
		return ver.Clause, ver, nil
	}
}
