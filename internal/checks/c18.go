package checks

import (
	"encoding/json"
	"fmt"
	"os"
	"path/filepath"
	"sort"
	"strings"
	"time"

	"verif/internal/gen"
	"verif/internal/harness"
	"verif/internal/libsim"
	"verif/internal/procsim"
	"wire"
)

// C18Case is one world with a designated root, attack (or benign) references
// planted inside the root, decoys outside, and the schedule of outside states
// the same invocation is run under.
type C18Case struct {
	World   procsim.World `json:"world"`
	Args    []string      `json:"args"`
	Cwd     string        `json:"cwd"`
	Vector  string        `json:"vector"`
	Benign  bool          `json:"benign"`
	RootAll bool          `json:"root_is_slash,omitempty"` // root "/" : nothing is outside
	States  []string      `json:"outside_states"`
	// NoRootArgs is the same invocation without -r (benign twins only)
	NoRootArgs []string `json:"no_root_args,omitempty"`
	// NeedsOutside: the only provider of some layer is outside, so the run must fail
	NeedsOutside bool `json:"needs_outside"`
	// API: drive the library directly (nested SetRoot calls) instead of the CLI
	API   bool     `json:"api,omitempty"`
	Roots []string `json:"set_root_calls,omitempty"`
	Input string   `json:"api_input,omitempty"`
	// PreRead: a file outside the final root that the same parser merges
	// BEFORE the root is narrowed (legitimate); afterwards it must be out of reach
	PreRead string `json:"api_pre_read,omitempty"`
	// Chdir: the process creates the parser, THEN changes its working
	// directory to this path, then names root and input relative to it
	Chdir string `json:"api_chdir_after_new,omitempty"`
	// Inst: run the instrumented bkl under this map-iteration mode instead
	// of the stock binary (only where the order in which findFile probes the
	// extensions has to be fixed: a layer name with two providers)
	Inst string `json:"instrumented_iteration_mode,omitempty"`
}

var c18States = []string{"baseline", "rewrite", "corrupt", "delete", "directories", "dangling", "extra-files", "eacces", "empty", "blank", "huge", "eacces-inside"}

const (
	c18Root    = "W/root"
	c18Outside = "W/outside"
)

func genC18(r *gen.Rand) *C18Case {
	c := &C18Case{Cwd: "W"}
	w := &c.World
	w.Dirs = []string{c18Root, c18Outside, c18Root + "/sub"}
	tc := c02Tree(true)
	secret := func(k int) map[string]any { return map[string]any{"secret": fmt.Sprintf("S%d", k), "zz": k} }
	put := func(path string, doc any) {
		w.Files = append(w.Files, procsim.File{Path: path, Docs: treeDocs(doc)})
	}
	// decoys (outside the root)
	put(c18Outside+"/d.yaml", secret(1))
	put(c18Outside+"/a.yaml", secret(2))
	put(c18Outside+"/a.b.yaml", secret(3))
	put(c18Outside+"/e.json", secret(4))
	// harmless content inside the root
	inner := tc.Map(r, 2)
	inner["inner"] = true
	put(c18Root+"/base.yaml", inner)
	put(c18Root+"/sub/s.yaml", map[string]any{"s": 1})
	in := tc.Map(r, 2)
	in["z"] = 1
	c.Benign = r.Chance(0.3)
	// where a reference points: outside (attack) or to the inside twin
	rootSpelling := r.Intn(6)
	if !c.Benign && r.Chance(0.1) {
		// (attack runs only: with the root spelled through a link, bkl refuses
		// inputs and parents that are spelled through the real directory —
		// over-cautious, not a leak — so a benign twin has nothing to say)
		rootSpelling = 7
	}
	abs := func(p string) string { return "@ABS@/" + p } // resolved at materialisation time
	input := "in.yaml"
	extraInput := "" // a second command-line input, spelled relative to the root like the first
	vectors := []string{"parent-dotdot", "parent-absolute", "parent-wildcard", "parent-list", "symlink-relative", "symlink-absolute",
		"symlink-chain", "dir-symlink", "symlink-name-parent", "input-dotdot", "virtual-ext", "parent-dotdot-sub",
		"symlink-hops", "symlink-hops", "symlink-via-dirlink", "setroot-sibling-prefix", "setroot-through-dirlink", "parent-wildcard-dir", "preread-then-narrow", "parent-wildcard-mixed", "parent-stdin-name", "dir-symlink-trailing-slash", "input-dotdot-through-dirlink", "chdir-after-new"}
	c.Vector = gen.PickAny(r, vectors)
	target := func(outside, inside string) string {
		if c.Benign {
			return inside
		}
		return outside
	}
	switch c.Vector {
	case "parent-dotdot":
		in["$parent"] = target("../outside/d", "base")
		c.NeedsOutside = !c.Benign
	case "parent-absolute":
		in["$parent"] = target(abs(c18Outside+"/d"), "base")
		c.NeedsOutside = !c.Benign
	case "parent-wildcard":
		in["$parent"] = target("../outside/*", "ba*")
		c.NeedsOutside = !c.Benign
	case "parent-list":
		in["$parent"] = []any{"base", target("../outside/e", "sub/s")}
		c.NeedsOutside = !c.Benign
	case "symlink-relative":
		out := "../outside/d.yaml"
		if r.Chance(0.4) {
			// a sibling whose name merely begins with the root's name
			put(c18Root+"-secret/d.yaml", secret(7))
			out = "../root-secret/d.yaml"
		}
		w.Links = append(w.Links, procsim.Link{Path: c18Root + "/l.yaml", Target: target(out, "base.yaml")})
		in["$parent"] = "l"
		c.NeedsOutside = !c.Benign
	case "symlink-absolute":
		outAbs := abs(c18Outside + "/d.yaml")
		if r.Chance(0.4) {
			put(c18Root+"-secret/d.yaml", secret(7))
			outAbs = abs(c18Root + "-secret/d.yaml")
		}
		w.Links = append(w.Links, procsim.Link{Path: c18Root + "/l.yaml", Target: target(outAbs, abs(c18Root+"/base.yaml"))})
		in["$parent"] = "l"
		c.NeedsOutside = !c.Benign
	case "symlink-chain":
		w.Links = append(w.Links, procsim.Link{Path: c18Root + "/l1.yaml", Target: "sub/l2.yaml"})
		w.Links = append(w.Links, procsim.Link{Path: c18Root + "/sub/l2.yaml", Target: target("../../outside/d.yaml", "../base.yaml")})
		in["$parent"] = "l1"
		c.NeedsOutside = !c.Benign
	case "symlink-hops":
		// a chain of 2-3 links, every hop spelled relative or absolute at
		// random, the last one leaving the root (or, benign, staying inside)
		hops := r.Range(2, 3)
		names := []string{c18Root + "/h1.yaml", c18Root + "/sub/h2.yaml", c18Root + "/h3.yaml"}[:hops]
		if r.Chance(0.35) {
			// longer than what a single confined lookup follows (os.Root gives up after 8 links)
			hops = r.Range(8, 12)
			names = nil
			for i := 1; i <= hops; i++ {
				d := c18Root
				if i%3 == 0 {
					d = c18Root + "/sub"
				}
				names = append(names, fmt.Sprintf("%s/h%d.yaml", d, i))
			}
		}
		final := target(c18Outside+"/d.yaml", c18Root+"/base.yaml")
		if r.Chance(0.4) {
			// the last hop leaves through a directory link in a non-final component
			w.Links = append(w.Links, procsim.Link{Path: c18Root + "/dl", Target: target("../outside", "sub")})
			final = c18Root + "/dl/" + target("d.yaml", "s.yaml")
		}
		spelling := r.Pick("relative", "relative", "mixed", "mixed", "absolute")
		for i, n := range names {
			next := final
			if i+1 < len(names) {
				next = names[i+1]
			}
			tgt := abs(next)
			if spelling == "relative" || (spelling == "mixed" && r.Chance(0.5)) {
				rel, _ := filepath.Rel(filepath.Dir(n), next)
				tgt = rel
			}
			w.Links = append(w.Links, procsim.Link{Path: n, Target: tgt})
		}
		in["$parent"] = "h1"
		c.NeedsOutside = !c.Benign
	case "symlink-via-dirlink":
		// a file link (relative or absolute) whose target path runs through a
		// directory link that leaves the root
		w.Links = append(w.Links, procsim.Link{Path: c18Root + "/dl", Target: target("../outside", "sub")})
		through := c18Root + "/dl/" + target("d.yaml", "s.yaml")
		tgt := abs(through)
		if r.Chance(0.5) {
			tgt = "dl/" + target("d.yaml", "s.yaml")
		}
		w.Links = append(w.Links, procsim.Link{Path: c18Root + "/v.yaml", Target: tgt})
		in["$parent"] = "v"
		c.NeedsOutside = !c.Benign
	case "setroot-sibling-prefix", "setroot-through-dirlink":
		// nested SetRoot calls on the library: the second call names a
		// directory outside the first root (a sibling whose name starts with
		// the root's name, or a directory link that leaves the root); the
		// benign twin narrows to a real sub-directory
		rootSpelling = 0
		c.API = true
		put(c18Root+"-secret/d.yaml", secret(7))
		w.Links = append(w.Links, procsim.Link{Path: c18Root + "/dl", Target: "../outside"})
		second, input2 := abs(c18Root+"-secret"), abs(c18Root+"-secret/d.yaml")
		if c.Vector == "setroot-through-dirlink" {
			second, input2 = abs(c18Root+"/dl"), abs(c18Root+"/dl/d.yaml")
		}
		if r.Chance(0.4) && c.Vector == "setroot-sibling-prefix" {
			second = abs(c18Root + "/../root-secret")
		}
		if c.Benign {
			second, input2 = abs(c18Root+"/sub"), abs(c18Root+"/sub/s.yaml")
		}
		c.Roots = []string{abs(c18Root), second}
		if r.Chance(0.3) {
			c.Roots = append([]string{abs("W")}, c.Roots...)
		}
		c.Input = input2
		c.NeedsOutside = !c.Benign
	case "chdir-after-new":
		// relative names mean what they mean when they are used, not when the
		// parser was created
		rootSpelling = 0
		c.API = true
		c.Chdir = abs(c18Root)
		c.Roots = []string{"."}
		c.Input = "in.yaml"
		in["$parent"] = target("../outside/d", "base")
		c.NeedsOutside = !c.Benign
		// a file of the input's name where the process was when the parser was created
		put("W/in.yaml", map[string]any{"secret": "S-old-cwd", "$parent": "outside/d"})
	case "preread-then-narrow":
		// a history on one parser: read a file while the root is still wide,
		// narrow the root, then try to reach the same file again
		rootSpelling = 0
		c.API = true
		c.PreRead = abs(c18Outside + "/d.yaml")
		in["$parent"] = target("../outside/d", "base")
		c.Roots = []string{abs(c18Root)}
		if r.Chance(0.5) {
			c.Roots = []string{abs("W"), abs(c18Root)}
		}
		c.Input = abs(c18Root + "/in.yaml")
		c.NeedsOutside = !c.Benign
	case "parent-wildcard-dir":
		// a wildcard in a directory component: it can match a directory
		// inside the root and one outside it
		put(c18Outside+"/base.yaml", secret(8))
		in["$parent"] = target("../*/base", "./*/s")
		if c.Benign {
			put(c18Root+"/sub2/s.yaml", map[string]any{"s2": 1})
		}
	case "dir-symlink-trailing-slash":
		// a directory link whose target is spelled with trailing slashes
		tgt := r.Pick("../", "..//", "../", "../outside/", "../outside//", "./../outside/.")
		w.Links = append(w.Links, procsim.Link{Path: c18Root + "/dl", Target: target(tgt, r.Pick("sub/", "sub//", "./sub/."))})
		if strings.Trim(tgt, "./") == "" {
			in["$parent"] = target("dl/outside/d", "dl/s")
		} else {
			in["$parent"] = target("dl/d", "dl/s")
		}
		c.NeedsOutside = !c.Benign
	case "input-dotdot-through-dirlink":
		// a second input spelled <directory link>/../d.yaml: lexically that is
		// root/d.yaml (what the confined open uses); physically, ".." of the
		// link's target, where a decoy of the same name lives
		w.Dirs = append(w.Dirs, c18Outside+"/deep", c18Root+"/sub/deep")
		w.Links = append(w.Links, procsim.Link{Path: c18Root + "/dl", Target: target("../outside/deep", "sub/deep")})
		if r.Chance(0.7) {
			put(c18Root+"/d.yaml", map[string]any{"inner_d": 1})
		}
		extraInput = "dl/../d.yaml"
		if rootSpelling == 5 || rootSpelling == 6 {
			rootSpelling = r.Intn(5)
		}
	case "parent-stdin-name":
		// a $parent naming a layer called "-" (the spelling of standard
		// input) next to the decoys; nothing is on stdin
		put(c18Outside+"/-.yaml", secret(9))
		put(c18Root+"/sub/-.yaml", map[string]any{"dash": 1})
		in["$parent"] = target("../outside/-", "sub/-")
	case "parent-wildcard-mixed":
		// one $parent value expanding to several files: a regular layer
		// inside the root and a link that leaves it (or, benign, stays inside)
		name, pat := "bax.yaml", "ba*"
		switch r.Intn(3) {
		case 0:
			name, pat = "base.json", "base" // same layer name under two extensions
		case 1:
			name, pat = "sub/t.yaml", "sub/?"
		}
		up := strings.Repeat("../", strings.Count(name, "/"))
		lt := target(up+"../outside/d.yaml", up+"sub/s.yaml")
		if r.Chance(0.3) {
			lt = target(abs(c18Outside+"/d.yaml"), abs(c18Root+"/sub/s.yaml"))
		}
		w.Links = append(w.Links, procsim.Link{Path: c18Root + "/" + name, Target: lt})
		in["$parent"] = pat
		c.NeedsOutside = !c.Benign
	case "dir-symlink":
		w.Links = append(w.Links, procsim.Link{Path: c18Root + "/dl", Target: target("../outside", "sub")})
		in["$parent"] = target("dl/d", "dl/s")
		c.NeedsOutside = !c.Benign
	case "symlink-name-parent":
		// the link's target name (a.b) implies a parent layer (a) next to the target
		w.Links = append(w.Links, procsim.Link{Path: c18Root + "/c.yaml", Target: target("../outside/a.b.yaml", "base.yaml")})
		input = "c.d.yaml"
		c.NeedsOutside = !c.Benign
	case "input-dotdot":
		if !c.Benign {
			input = "../outside/d.yaml"
			c.NeedsOutside = true
		} else {
			input = "sub/../in.yaml"
		}
	case "virtual-ext":
		if !c.Benign {
			input = "../outside/d.json" // virtual name of outside/d.yaml
			c.NeedsOutside = true
		} else {
			input = "in.json"
		}
	case "parent-dotdot-sub":
		// root is root/sub; root/base.yaml is outside it
		rootSpelling = 6
		c.NeedsOutside = !c.Benign
	}
	put(c18Root+"/"+"in.yaml", in)
	if c.Vector == "symlink-name-parent" {
		put(c18Root+"/c.d.yaml", map[string]any{"top": 1})
	}
	var rootArg, inputArg string
	switch rootSpelling {
	case 0:
		rootArg, inputArg = "root", "root/"+input
	case 1:
		rootArg, inputArg = abs(c18Root), "root/"+input
	case 2:
		c.Cwd = c18Root
		rootArg, inputArg = ".", input
	case 3:
		c.Cwd = c18Root + "/sub"
		rootArg, inputArg = "..", "../"+input
	case 4:
		c.Cwd = c18Root
		rootArg, inputArg = abs(c18Root), abs(c18Root+"/"+input)
	case 5:
		rootArg, inputArg = "/", "root/"+input
		c.RootAll = true
		c.NeedsOutside = false
	case 7:
		// the root reached through a link to it (relative, or — attack runs
		// only, os.Root refuses those outright — absolute)
		if r.Chance(0.5) {
			w.Links = append(w.Links, procsim.Link{Path: "W/rl", Target: "root"})
		} else {
			w.Links = append(w.Links, procsim.Link{Path: "W/rl", Target: abs(c18Root)})
		}
		rootArg, inputArg = "rl", r.Pick("rl/", "root/")+input
	case 6:
		// sub-directory root: outside = the rest of W/root
		c.Cwd = c18Root
		rootArg, inputArg = "sub", "sub/t.yaml"
		t := map[string]any{"t": 1, "$parent": target("../base", "s")}
		put(c18Root+"/sub/t.yaml", t)
		// decoys for this vector are the files of root/ itself; handled by states through the generic outside dir too
	}
	c.Args = []string{"-r", rootArg, inputArg}
	if extraInput != "" {
		c.Args = append(c.Args, strings.TrimSuffix(inputArg, input)+extraInput)
	}
	if !c.RootAll && !c.API && extraInput == "" && rootSpelling != 7 && r.Chance(0.25) {
		// the same confinement reached through nested SetRoot calls on the library
		c.API = true
		c.Input = inputArg
		switch r.Intn(3) {
		case 0:
			c.Roots = []string{abs("W"), rootArg}
		case 1:
			c.Roots = []string{"/", abs("W"), rootArg}
		default:
			c.Roots = []string{rootArg}
		}
		if rootArg == "sub" || rootArg == ".." || rootArg == "." {
			c.Roots = []string{abs(c18Root), rootArg}
			if rootArg == ".." {
				// ".." from W/root/sub is W/root itself: fine under a first root of W
				c.Roots = []string{abs("W"), rootArg}
			}
		}
	}
	if r.Chance(0.3) {
		c.Args = append([]string{"-f", r.Pick("json", "yaml")}, c.Args...)
	}
	if (c.Vector == "input-dotdot" || c.Vector == "virtual-ext") && r.Chance(0.4) {
		// the single-file path (MergeFile) must be confined as well
		c.Args = append([]string{"-P"}, c.Args...)
	}
	if c.Benign || c.RootAll {
		for _, a := range c.Args {
			if a == "-r" {
				continue
			}
			c.NoRootArgs = append(c.NoRootArgs, a)
		}
		// drop the root value following -r
		var nr []string
		skip := false
		for _, a := range c.Args {
			if skip {
				skip = false
				continue
			}
			if a == "-r" {
				skip = true
				continue
			}
			nr = append(nr, a)
		}
		c.NoRootArgs = nr
	}
	// schedule of outside states: baseline plus a seeded subset (thorough: all)
	c.States = []string{"baseline"}
	rest := append([]string{}, c18States[1:]...)
	gen.Shuffle(r, rest)
	c.States = append(c.States, rest[:r.Range(2, 4)]...)
	if c.RootAll || c.PreRead != "" {
		// nothing is outside "/": the only claim is that -r / changes nothing;
		// a legitimate pre-read makes the result depend on the decoy by design
		c.States = []string{"baseline"}
	}
	return c
}

// outsideDirs lists the directories that are outside the root for this case.
func (c *C18Case) outsideFiles() []string {
	var out []string
	for _, f := range c.World.Files {
		if strings.HasPrefix(f.Path, c18Outside+"/") || strings.HasPrefix(f.Path, c18Root+"-secret/") {
			out = append(out, f.Path)
		}
	}
	if c.Vector == "parent-dotdot-sub" {
		out = append(out, c18Root+"/base.yaml", c18Root+"/in.yaml")
	}
	sort.Strings(out)
	return out
}

func resolveAbs(root string, s string) string {
	return strings.ReplaceAll(s, "@ABS@/", root+"/")
}

// materialiseC18 builds the world in the given outside state.
func materialiseC18(c *C18Case, root, state string) error {
	w := c.World.Clone()
	for i := range w.Files {
		for d := range w.Files[i].Docs {
			w.Files[i].Docs[d] = wire.Tree{V: substAbs(w.Files[i].Docs[d].V, root)}
		}
	}
	for i := range w.Links {
		w.Links[i].Target = resolveAbs(root, w.Links[i].Target)
	}
	if err := w.Materialise(root); err != nil {
		return err
	}
	for k, p := range c.outsideFiles() {
		full := filepath.Join(root, p)
		switch state {
		case "rewrite":
			doc := map[string]any{"secret": fmt.Sprintf("T%d", k), "rewritten": true, "zz": 100 + k}
			s, _ := gen.StreamText(procsim.Ext(p), []any{doc})
			if err := os.WriteFile(full, []byte(s), 0o644); err != nil {
				return err
			}
		case "corrupt":
			if err := os.WriteFile(full, []byte("{{{ \x00 not: [valid"), 0o644); err != nil {
				return err
			}
		case "huge":
			// valid content, larger than any "small file" fast path
			doc := map[string]any{"secret": fmt.Sprintf("H%d", k), "huge": true, "pad": strings.Repeat("0123456789abcdef", 70000)}
			s, _ := gen.StreamText(procsim.Ext(p), []any{doc})
			if err := os.WriteFile(full, []byte(s), 0o644); err != nil {
				return err
			}
		case "empty":
			if err := os.WriteFile(full, nil, 0o644); err != nil {
				return err
			}
		case "blank":
			if err := os.WriteFile(full, []byte("\n\n"), 0o644); err != nil {
				return err
			}
		case "delete":
			if err := os.Remove(full); err != nil {
				return err
			}
		case "directories":
			if err := os.Remove(full); err != nil {
				return err
			}
			if err := os.Mkdir(full, 0o755); err != nil {
				return err
			}
		case "dangling":
			if err := os.Remove(full); err != nil {
				return err
			}
			if err := os.Symlink("nowhere-"+filepath.Base(p), full); err != nil {
				return err
			}
		case "extra-files":
			extra := filepath.Join(filepath.Dir(full), "extra-"+filepath.Base(p))
			if err := os.WriteFile(extra, []byte("extra: 1\n"), 0o644); err != nil {
				return err
			}
		}
	}
	_ = os.MkdirAll(filepath.Join(root, "tmp"), 0o755)
	_ = os.MkdirAll(filepath.Join(root, "bin"), 0o755)
	return nil
}

func substAbs(v any, root string) any {
	switch x := v.(type) {
	case string:
		return resolveAbs(root, x)
	case map[string]any:
		m := map[string]any{}
		for k, e := range x {
			m[k] = substAbs(e, root)
		}
		return m
	case []any:
		l := make([]any, len(x))
		for i, e := range x {
			l[i] = substAbs(e, root)
		}
		return l
	}
	return v
}

type c18Obs struct {
	Clause   string                      `json:"clause"`
	State    string                      `json:"state,omitempty"`
	Detail   string                      `json:"detail,omitempty"`
	Outcomes map[string]*procsim.Outcome `json:"outcomes,omitempty"`
	Probed   bool                        `json:"-"`
	Injected int                         `json:"-"`
}

// judgeC18 runs the invocation under every outside state of the schedule.
func judgeC18(e *Env, c *C18Case, tag string, run int64) (*c18Obs, error) {
	obs := &c18Obs{Outcomes: map[string]*procsim.Outcome{}}
	base := filepath.Join(e.Tree.Root, "worlds", fmt.Sprintf("C18-%s-%d", tag, run))
	defer os.RemoveAll(base)
	var first *procsim.Outcome
	fail := func(clause, state, detail string) (*c18Obs, error) {
		obs.Clause, obs.State, obs.Detail = clause, state, detail
		return obs, nil
	}
	for si, state := range c.States {
		// the same absolute path for every state: absolute spellings must not differ between states
		root := filepath.Join(base, "s")
		_ = os.RemoveAll(root)
		_ = si
		if err := materialiseC18(c, root, state); err != nil {
			return nil, &libsim.InfraError{Msg: err.Error()}
		}
		args := make([]string, len(c.Args))
		for i, a := range c.Args {
			args[i] = resolveAbs(root, a)
		}
		inv := &procsim.Invocation{Kind: "stock", Args: args, Cwd: c.Cwd, Trace: true}
		if c.Inst != "" && !c.API {
			inv.Kind = "inst"
			inv.Sched = &wire.Sched{Mode: c.Inst}
			inv.StepBudget = ProcStepBudget
		}
		tool := "bkl"
		if c.API {
			tool = "worker-stock"
			req := &wire.Request{Run: run, Sched: wire.Sched{Mode: "Native"}}
			var ops []wire.Op
			if c.Chdir != "" {
				ops = append(ops, wire.Op{Op: "New"}, wire.Op{Op: "Chdir", Path: resolveAbs(root, c.Chdir)})
			}
			for i, rt := range c.Roots {
				if c.PreRead != "" && i == len(c.Roots)-1 {
					// the legitimate read, just before the root is narrowed
					ops = append(ops, wire.Op{Op: "MergeFile", Path: resolveAbs(root, c.PreRead)})
				}
				ops = append(ops, wire.Op{Op: "SetRoot", Path: resolveAbs(root, rt)})
			}
			ops = append(ops, wire.Op{Op: "MergeFileLayers", Path: resolveAbs(root, c.Input)}, wire.Op{Op: "Output", Format: "json"})
			req.Tasks = []wire.TaskSpec{{Ops: ops}}
			js, _ := json.Marshal(req)
			inv.Args = nil
			inv.Stdin = string(js) + "\n"
		}
		if state == "eacces" {
			// (the injection is keyed on the base name too — os.Root opens
			// component by component —, so a decoy that shares its base name
			// with a file inside the root is left out: the fault would hit
			// the legitimate open)
			inside := map[string]bool{}
			for _, f := range c.World.Files {
				if strings.HasPrefix(f.Path, c18Root+"/") {
					inside[filepath.Base(f.Path)] = true
				}
			}
			for _, l := range c.World.Links {
				if strings.HasPrefix(l.Path, c18Root+"/") {
					inside[filepath.Base(l.Path)] = true
				}
			}
			for _, p := range c.outsideFiles() {
				if strings.HasPrefix(p, c18Root+"/") || !inside[filepath.Base(p)] {
					inv.Injects = append(inv.Injects, procsim.Inject{Syscall: "openat", Path: p, Errno: "EACCES"})
				}
			}
		}
		if state == "eacces-inside" {
			// a permission fault INSIDE the root: the first confined open of
			// an in-root link fails (a search-only directory, an ACL); what
			// the tool does next must still stay inside the root
			for _, l := range c.World.Links {
				if strings.HasPrefix(l.Path, c18Root+"/") {
					inv.Injects = append(inv.Injects, procsim.Inject{Syscall: "openat", Path: l.Path, Errno: "EACCES", When: "1"})
				}
			}
		}
		out, err := runInv(e, root, tool, inv)
		if err != nil {
			return nil, err
		}
		if c.API && out.Crash == "" {
			// translate the driver's answer into the CLI's terms: status 0 and
			// the output bytes iff every call succeeded
			lines := strings.Split(strings.TrimSpace(out.Stdout), "\n")
			var res wire.Result
			if err := json.Unmarshal([]byte(lines[len(lines)-1]), &res); err != nil || len(res.Tasks) != 1 {
				return nil, &libsim.InfraError{Msg: "library driver: bad answer: " + short(out.Stdout, 300) + " / " + short(out.Stderr, 300)}
			}
			out.Status, out.Stdout = 0, ""
			for i, r := range res.Tasks[0] {
				if r.Outcome != "ok" {
					out.Status = 1
					out.Stderr = fmt.Sprintf("call %d: %s %s", i, r.Outcome, r.Err)
					break
				}
				if r.Bytes != nil {
					out.Stdout = *r.Bytes
				}
			}
		}
		obs.Outcomes[state] = trimOutcome(out)
		obs.Injected += out.Injected
		outsideAbs := filepath.Join(root, c18Outside) + "/"
		subOutside := ""
		if c.Vector == "parent-dotdot-sub" {
			subOutside = filepath.Join(root, c18Root) + "/"
		}
		isOutside := func(p string) bool {
			if c.RootAll {
				return false
			}
			if strings.HasPrefix(p, outsideAbs) || p+"/" == outsideAbs {
				return true
			}
			if sec := filepath.Join(root, c18Root+"-secret"); p == sec || strings.HasPrefix(p, sec+"/") {
				return true
			}
			if subOutside != "" && strings.HasPrefix(p, subOutside) && !strings.HasPrefix(p, subOutside+"sub/") {
				return true
			}
			if c.Vector == "chdir-after-new" && strings.HasPrefix(p, filepath.Join(root, "W")+"/") && !strings.HasPrefix(p, filepath.Join(root, c18Root)+"/") {
				return true
			}
			return false
		}
		for _, p := range out.Attempted {
			if isOutside(p) {
				obs.Probed = true
			}
		}
		// monitor: no successful open of a regular file outside the root
		for _, p := range out.Opened {
			if c.PreRead != "" {
				break // the pre-read legitimately opened the decoy; only "the later attempt fails" is judged
			}
			if isOutside(p) {
				if fi, err := os.Stat(p); err == nil && fi.Mode().IsRegular() {
					return fail("opened-file-outside-root", state, p)
				}
			}
		}
		if out.Crash != "" {
			// C08's subject; keep C18 to its own statement
			continue
		}
		ok := out.Status == 0
		if state == "eacces-inside" && len(inv.Injects) > 0 {
			// a fault inside the root may legitimately change the result;
			// only the monitors above and the "must fail" clause apply
		} else if first == nil {
			first = out
		} else {
			if (first.Status == 0) != ok || first.Stdout != out.Stdout {
				return fail("result-depends-on-outside-state", state, fmt.Sprintf("baseline: status %d stdout %q; %s: status %d stdout %q", first.Status, short(first.Stdout, 300), state, out.Status, short(out.Stdout, 300)))
			}
		}
		if c.NeedsOutside && (ok || out.Stdout != "") {
			return fail("escape-attempt-did-not-fail", state, fmt.Sprintf("status %d stdout %q", out.Status, short(out.Stdout, 300)))
		}
		if ok && strings.Contains(out.Stdout, "secret") && !c.RootAll && c.PreRead == "" {
			return fail("outside-content-in-output", state, short(out.Stdout, 300))
		}
		if (c.Benign || c.RootAll) && !c.API && state == "baseline" && len(c.NoRootArgs) > 0 {
			a2 := make([]string, len(c.NoRootArgs))
			for i, a := range c.NoRootArgs {
				a2[i] = resolveAbs(root, a)
			}
			o2, err := runInv(e, root, "bkl", &procsim.Invocation{Kind: "stock", Args: a2, Cwd: c.Cwd})
			if err != nil {
				return nil, err
			}
			if (o2.Status == 0) != ok || o2.Stdout != out.Stdout {
				return fail("benign-result-differs-without-root", state, fmt.Sprintf("with -r: status %d stdout %q; without: status %d stdout %q", out.Status, short(out.Stdout, 300), o2.Status, short(o2.Stdout, 300)))
			}
		}
	}
	return obs, nil
}

func c18Candidates(c *C18Case) []*C18Case {
	var out []*C18Case
	clone := func() *C18Case {
		js, _ := json.Marshal(c)
		var n C18Case
		_ = json.Unmarshal(js, &n)
		return &n
	}
	for i := len(c.States) - 1; i >= 1; i-- {
		n := clone()
		n.States = append(n.States[:i], n.States[i+1:]...)
		out = append(out, n)
	}
	for fi, f := range c.World.Files {
		for d := range f.Docs {
			for _, s := range gen.Simpler(f.Docs[d].V) {
				n := clone()
				n.World.Files[fi].Docs[d] = wire.Tree{V: s}
				out = append(out, n)
			}
		}
	}
	return out
}

// c18Known names the known-finding predicate a case satisfies.
// c18DotDotSlash: os.Root of the Go release the repository pins (1.24.0)
// follows a directory link whose target is ".." followed by slashes out of
// the root (fixed upstream in Go 1.24.3); every clause that fires is a
// consequence of that one escape.
func c18DotDotSlash(c *C18Case, o *c18Obs) string {
	if o == nil || c.Benign || c.Vector != "dir-symlink-trailing-slash" {
		return ""
	}
	for _, l := range c.World.Links {
		if l.Path == c18Root+"/dl" && strings.HasPrefix(l.Target, "..") && strings.Trim(l.Target, "./") == "" && strings.HasSuffix(l.Target, "/") {
			switch o.Clause {
			case "opened-file-outside-root", "escape-attempt-did-not-fail", "outside-content-in-output", "result-depends-on-outside-state":
				return "c18-os-root-dotdot-slash-link"
			}
		}
	}
	return ""
}

func c18Known(c *C18Case, o *c18Obs) string {
	if k := c18DotDotSlash(c, o); k != "" {
		return k
	}
	if o == nil || o.Clause != "result-depends-on-outside-state" || c.Benign {
		return ""
	}
	if c.Vector == "parent-stdin-name" && o.State == "delete" {
		// $parent values are expanded by filepath.Glob outside the root
		// handle; a match named "-" is then read from standard input
		// instead of being opened through the root
		return "c18-parent-stdin-name-outside-root"
	}
	if c.Vector == "two-providers-escaping-link" && (o.State == "delete" || o.State == "dangling") {
		// a layer name provided twice inside the root, once by a link that
		// leaves the root: findFile probes the candidates with os.Stat,
		// which follows the link, so whether the link's target exists
		// decides which candidate is chosen
		return "c18-two-providers-escaping-link"
	}
	if c.Vector != "parent-wildcard-dir" {
		return ""
	}
	switch o.State {
	case "delete", "dangling":
		// the wildcard's directory component matched a directory outside
		// the root; whether a file exists there decides between "escapes"
		// and a successful evaluation of the inside match
		return "c18-wildcard-directory-component"
	}
	return ""
}

func c18Sentinel() *C18Case {
	c := &C18Case{Cwd: "W", Vector: "parent-wildcard-dir", States: []string{"baseline", "delete"}}
	c.World.Dirs = []string{c18Root, c18Outside}
	c.World.Files = []procsim.File{
		{Path: c18Root + "/in.yaml", Docs: treeDocs(map[string]any{"$parent": "../*/base", "z": 1})},
		{Path: c18Root + "/base.yaml", Docs: treeDocs(map[string]any{"inner": true})},
		{Path: c18Outside + "/base.yaml", Docs: treeDocs(map[string]any{"secret": "S8"})},
	}
	c.Args = []string{"-r", "root", "root/in.yaml"}
	return c
}

func c18SentinelStdin() *C18Case {
	c := &C18Case{Cwd: "W", Vector: "parent-stdin-name", States: []string{"baseline", "delete"}}
	c.World.Dirs = []string{c18Root, c18Outside}
	c.World.Files = []procsim.File{
		{Path: c18Root + "/in.yaml", Docs: treeDocs(map[string]any{"$parent": "../outside/-", "z": 1})},
		{Path: c18Outside + "/-.yaml", Docs: treeDocs(map[string]any{"secret": "S9"})},
	}
	c.Args = []string{"-r", "root", "root/in.yaml"}
	return c
}

func c18SentinelDotDotSlash() *C18Case {
	c := &C18Case{Cwd: "W", Vector: "dir-symlink-trailing-slash", States: []string{"baseline", "rewrite"}, NeedsOutside: true}
	c.World.Dirs = []string{c18Root, c18Outside}
	c.World.Files = []procsim.File{
		{Path: c18Root + "/in.yaml", Docs: treeDocs(map[string]any{"$parent": "dl/outside/d", "z": 1})},
		{Path: c18Outside + "/d.yaml", Docs: treeDocs(map[string]any{"secret": "S1"})},
	}
	c.World.Links = []procsim.Link{{Path: c18Root + "/dl", Target: "../"}}
	c.Args = []string{"-r", "root", "root/in.yaml"}
	return c
}

// c18SentinelTwoProviders: the layer name x has two providers inside the
// root, x.json (a link that leaves the root) and x.yaml (a regular file). The
// instrumented bkl probes the extensions in ascending order, so x.json is
// tried first: while its target exists it is chosen and the confined open
// fails; once the target is gone os.Stat fails and x.yaml is chosen.
func c18SentinelTwoProviders() *C18Case {
	c := &C18Case{Cwd: "W", Vector: "two-providers-escaping-link", States: []string{"baseline", "delete"}, Inst: "Asc"}
	c.World.Dirs = []string{c18Root, c18Outside}
	c.World.Files = []procsim.File{
		{Path: c18Root + "/x.b.yaml", Docs: treeDocs(map[string]any{"z": 1})},
		{Path: c18Root + "/x.yaml", Docs: treeDocs(map[string]any{"inner": true})},
		{Path: c18Outside + "/x.json", Docs: treeDocs(map[string]any{"secret": "S7"})},
	}
	c.World.Links = []procsim.Link{{Path: c18Root + "/x.json", Target: "../outside/x.json"}}
	c.Args = []string{"-r", "root", "root/x.b.yaml"}
	return c
}

// RunC18 is the check for property C18.
func RunC18(e *Env) (int, error) {
	ev := e.Ev
	n := e.N(700, 8000)
	fn := func(run int64) harness.RunResult {
		r := gen.New(e.Seed, "C18", run)
		c := genC18(r)
		if e.Thorough() && !c.RootAll && c.PreRead == "" {
			c.States = append([]string{}, c18States...)
		}
		obs, err := judgeC18(e, c, "run", run)
		if err != nil {
			return harness.RunResult{Err: err}
		}
		for _, st := range c.States {
			if o := obs.Outcomes[st]; o != nil {
				e.Log(run, st, o.Status, o.Stdout, o.Stderr)
			}
		}
		e.Log(run, c, obs.Clause, obs.Probed)
		key := ""
		if !c.Benign && obs.Probed {
			js, _ := json.Marshal(c)
			key = string(js)
			ev.Sample(map[string]any{"vector": c.Vector, "args": c.Args, "cwd": c.Cwd, "states": c.States, "needs_outside": c.NeedsOutside})
		}
		ev.Eval(key)
		ev.Count("vector."+c.Vector, 1)
		if c.API {
			ev.Count("library_api_nested_setroot_runs", 1)
		}
		if c.Benign {
			ev.Count("benign_twins", 1)
		}
		if obs.Probed {
			ev.Count("probe.outside_path_probed", 1)
		}
		for _, s := range c.States {
			ev.Count("outside_state."+s, 1)
		}
		ev.Count("fault_fired.openat_EACCES", int64(obs.Injected))
		ev.Count("process_runs", int64(len(c.States)))
		for s, o := range obs.Outcomes {
			ev.Distinct("outcomes", fmt.Sprintf("%s|%d|%s", s, o.Status, o.Stdout))
		}
		if obs.Clause == "" {
			return harness.RunResult{}
		}
		return harness.RunResult{Violation: &harness.Violation{Property: "C18", Check: "noninterference", Clause: obs.Clause, Seed: e.Seed, Run: run, Case: c, Observed: obs}}
	}
	finish := func(v *harness.Violation) (*harness.Violation, string) {
		c := v.Case.(*C18Case)
		if o0, ok := v.Observed.(*c18Obs); ok {
			if key := c18Known(c, o0); key != "" {
				return v, key
			}
		}
		obs, err := judgeC18(e, c, "confirm", v.Run)
		if err != nil || obs.Clause != v.Clause {
			v.Note = "did not reproduce on re-execution"
			return v, ""
		}
		k := 0
		min, used := harness.Shrink(c, c18Candidates, func(cand *C18Case) bool {
			k++
			o, err := judgeC18(e, cand, "shrink", v.Run*1000+int64(k))
			return err == nil && o.Clause == v.Clause
		}, 120)
		o, _ := judgeC18(e, min, "final", v.Run)
		v.Case, v.Shrunk, v.ShrinkExecs = min, true, used
		if o != nil {
			v.Observed = o
		}
		return v, ""
	}
	t0 := time.Now()
	for k, c := range []*C18Case{c18Sentinel(), c18SentinelStdin(), c18SentinelDotDotSlash(), c18SentinelTwoProviders()} {
		if c.Inst != "" && !e.Tree.Instrumented {
			continue // needs a fixed probe order; the stock binary's is the runtime's
		}
		o, err := judgeC18(e, c, "sentinel", int64(k))
		if err != nil {
			return 0, err
		}
		ev.Eval("")
		if o.Clause != "" {
			v := &harness.Violation{Property: "C18", Check: "noninterference", Clause: o.Clause, Seed: e.Seed, Run: int64(-1 - k), Case: c, Observed: o}
			if e.Report(v, c18Known(c, o)) {
				return 1, nil
			}
		}
	}
	viol, err := e.Drive(n, fn, finish)
	ev.Coverage["rule"] = "each run builds W/root (inputs, layers, sub-directory) and W/outside (decoy layers with recognisable content), plants one attack vector inside the root ($parent with .., absolute, wildcard, list; relative/absolute/chained file symlinks; directory symlink; symlink whose target name implies an outside parent; input spelled through ..; virtual extension; sub-directory root; link chains of up to 12 hops; wildcard in a directory component; one $parent value expanding to a regular layer and an escaping link; a parent named -; directory links spelled with trailing slashes; nested SetRoot calls and pre-read-then-narrow histories through the library driver) or its benign twin, picks a root spelling (relative, absolute, ., .., /, sub-directory), and runs the stock bkl -r under strace once per outside state of a seeded schedule (baseline, decoys rewritten / corrupted / emptied / blanked / deleted / replaced by directories / by dangling links / extra files added / huge / openat EACCES injected on the decoys / openat EACCES injected once on every in-root link); oracle = identical (status, stdout) across states + no successful open of a regular file outside the root + attack runs fail with empty stdout + benign twins equal the run without -r; non-trivial = an attack vector was present and the process probed a path outside the root; distinct = canonical case"
	ev.Coverage["loop_seconds"] = time.Since(t0).Seconds()
	ev.Assumptions = []string{
		"opening outside directories (filepath.Glob, os.Root component walks) and stat/readlink probes are not content reads and are not flagged",
		"strace -y resolves the path of every successfully opened descriptor",
		"crashes are C08's subject and are not judged here",
	}
	components(ev, e.Tree, []string{"stock bkl binary built from the working tree, real filesystem (files, symlinks, directories), strace monitor and openat fault injection", "instrumented bkl under ascending iteration order for one sentinel only (a layer name with two providers, known finding c18-two-providers-escaping-link)"}, []string{})
	return viol, err
}

func init() {
	replayers["C18/noninterference"] = func(e *Env, raw []byte) (string, any, error) {
		var v struct {
			Clause string  `json:"clause"`
			Run    int64   `json:"run"`
			Case   C18Case `json:"case"`
		}
		if err := json.Unmarshal(raw, &v); err != nil {
			return "", nil, err
		}
		o, err := judgeC18(e, &v.Case, "replay", v.Run)
		if err != nil {
			return "", nil, err
		}
		if o.Clause != v.Clause {
			return "", o, nil
		}
		return o.Clause, o, nil
	}
}
