package checks

import (
	"encoding/json"
	"fmt"
	"os"
	"path/filepath"
	"regexp"
	"strings"
	"time"

	toml "github.com/pelletier/go-toml/v2"
	"gopkg.in/yaml.v3"

	"verif/internal/gen"
	"verif/internal/harness"
	"verif/internal/procsim"
	"wire"
)

// C08Case is one tool invocation in one simulated world.
type C08Case struct {
	World  procsim.World      `json:"world"`
	Tool   string             `json:"tool"`
	Inv    procsim.Invocation `json:"invocation"`
	Faults []string           `json:"faults,omitempty"`
	// OutFile is the -o path (world-relative to cwd), if any
	OutFile string `json:"out_file,omitempty"`
	// StdinDoc is the document fed on stdin (when its bytes were not mutated)
	StdinDoc *wire.Tree `json:"stdin_doc,omitempty"`
}

const c08Dir = "w"

func c08Prog(r *gen.Rand) gen.ProgCfg {
	cfg := gen.SwarmProgCfg(r)
	cfg.PBad = gen.PickAny(r, []float64{0, 0.05, 0.2, 0.4})
	cfg.PSelf = gen.PickAny(r, []float64{0, 0.1, 0.3, 0.5})
	if r.Chance(0.4) {
		cfg.Merge, cfg.Replace, cfg.StrRef, cfg.Interp = true, true, true, true
	}
	return cfg
}

// cycleShapes are hand-shaped reference cycles of every kind the property
// names, instantiated with random keys.
// longNamesDoc: keys as real configurations have them — long, differing in
// their tails only — and references to them, some of which are near misses
// (a typo) or miss altogether.
func longNamesDoc(r *gen.Rand) any {
	fam := gen.PickAny(r, gen.KeyFamilies[len(gen.KeyFamilies)-2:])
	doc := map[string]any{}
	for i, k := range fam {
		doc[k] = map[string]any{"n": i, "tier": r.Pick("front", "back")}
	}
	k := gen.PickAny(r, fam)
	ref := k
	switch r.Intn(5) {
	case 0:
		ref = k[:len(k)-1] // one letter short
	case 1:
		ref = k + "s"
	case 2:
		ref = k[:len(k)-2] + "Xy"
	case 3:
		ref = strings.ToUpper(k[:1]) + k[1:]
	}
	host := gen.PickAny(r, fam)
	switch r.Intn(4) {
	case 0:
		doc[host].(map[string]any)["$merge"] = ref
	case 1:
		doc["ref"] = "$merge:" + ref
	case 2:
		doc["text"] = `$"{` + ref + `.tier}-{` + ref + `.n}"`
	default:
		doc["copy"] = map[string]any{"$replace": ref + ".tier"}
	}
	return doc
}

func cycleDoc(r *gen.Rand) any {
	k := gen.PickAny(r, gen.DefaultKeys)
	k2 := gen.PickAny(r, gen.DefaultKeys)
	if r.Chance(0.25) {
		// map keys that evaluate to something that is not a string (the three
		// key-evaluation sites: reference phase, evaluation phase, nested $repeat)
		switch r.Intn(5) {
		case 0:
			return map[string]any{"$replace:" + k: 1, k: []any{1}}
		case 1:
			return map[string]any{k: map[string]any{"$value": map[string]any{"$repeat": map[string]any{"$repeat": r.Range(1, 2), k2: 1}}}}
		case 2:
			return map[string]any{k: []any{map[string]any{"$repeat": 2, k2: map[string]any{"$value": map[string]any{"$repeat": 1}}}}}
		case 3:
			// a decoded document is evaluated as it comes: its root is not
			// anybody's map value, so a key named $repeat survives to key evaluation
			return map[string]any{k: map[string]any{"$decode": r.Pick("yaml", "yaml", "json", "toml"), "$value": "\"$repeat\": {\"$repeat\": 1, \"z\": 2}\n"}}
		default:
			return map[string]any{"$merge:" + k: map[string]any{"x": 1}, k: true}
		}
	}
	if r.Chance(0.2) {
		// interpolation cycles in which a template mentions the cycle more than once
		switch r.Intn(3) {
		case 0:
			return map[string]any{k: `$"{` + k + `}-{` + k + `}"`}
		case 1:
			return map[string]any{k: `$"{` + k2 + `}/{` + k2 + `}"`, k2: `$"{` + k + `}"`, "z": 1}
		default:
			return map[string]any{k: `$"{` + k2 + `}{` + k2 + `}{` + k2 + `}"`, k2: `$"<{` + k + `}>"`}
		}
	}
	switch r.Intn(10 + r.Intn(2)*r.Intn(2)) {
	case 0:
		return map[string]any{k: `$"{` + k + `}"`}
	case 1:
		return map[string]any{k: "$merge:" + k2, k2: "$merge:" + k}
	case 2:
		return map[string]any{k: map[string]any{"$merge": k2}, k2: map[string]any{"$merge": k}}
	case 3:
		return map[string]any{k: map[string]any{k: 1, "$merge": []any{}}}
	case 4:
		return map[string]any{k: map[string]any{"$replace": k}}
	case 5:
		return map[string]any{k: `$"x{` + k2 + `}"`, k2: `$"y{` + k + `}"`}
	case 6:
		return map[string]any{k: []any{1, map[string]any{"$merge": k}}}
	case 7:
		return map[string]any{"$merge": k, k: map[string]any{k: map[string]any{"x": 1}}}
	case 8:
		return map[string]any{"$merge:" + k: 1, k: 5}
	case 9:
		return map[string]any{k: map[string]any{"$repeat": 2, "$merge": k}}
	default:
		// branching self-reference (the listed known finding when k == k2... and its relatives)
		return map[string]any{k: map[string]any{k2: map[string]any{"$merge": k}, k: map[string]any{"$merge": k, k2: "q"}}}
	}
}

// c08Sentinel is the canonical input of the listed known finding. It is run
// once per check so that the KNOWN-FINDING line is printed whenever the defect
// is still present (and silently passes once it is repaired).
func c08Sentinel() *C08Case {
	c := &C08Case{Tool: "bkl"}
	c.World.Dirs = []string{c08Dir}
	doc := map[string]any{"c": map[string]any{"a": map[string]any{"$merge": "c"}, "c": map[string]any{"$merge": "c", "a": "q"}}}
	c.World.Files = []procsim.File{{Path: filepath.Join(c08Dir, "x.json"), Docs: treeDocs(doc)}}
	c.Inv = procsim.Invocation{Kind: "inst", Args: []string{"x.json"}, Cwd: c08Dir, Sched: &wire.Sched{Mode: "Asc"}, StepBudget: ProcStepBudget}
	return c
}

func genC08(r *gen.Rand) *C08Case {
	c := &C08Case{}
	w := &c.World
	w.Dirs = []string{c08Dir}
	cfg := c08Prog(r)
	child := gen.ChildCfg{Tree: cfg.Tree, Edits: r.Range(1, 3), PUseless: 0.05}
	c.Tool = "bkl"
	switch r.Intn(12) {
	case 0:
		c.Tool = "bkld"
	case 1:
		c.Tool = "bkli"
	case 2:
		c.Tool = "bklr"
	case 3:
		// the wrappers, around cat: what they hand to the wrapped program
		// comes out on stdout, so the same trichotomy applies
		c.Tool = "bklb"
	case 4:
		c.Tool = "kubectl-bkl"
	}
	base := r.Pick("a", "cfg", "app")
	// layer chain
	nLayers := r.Range(1, 3)
	if r.Chance(0.03) {
		// unusual but legal names; a name near NAME_MAX fits with a short
		// extension but not with a long one
		base = r.Pick("svc[1]", "sp ace", "uni-é", strings.Repeat("N", 246), strings.Repeat("m", 244))
		if len(base) > 200 {
			nLayers = 1
		}
	}
	var names []string
	var first any
	name := base
	anchorAt := -1
	if r.Chance(0.1) {
		anchorAt = r.Intn(nLayers) // one layer is hand-written text using features of the formats
	}
	if r.Chance(0.03) {
		// a YAML layer with very long physical lines (a blob, a certificate
		// bundle) and content after them: sizes beyond one scanner / pipe / read
		// buffer, checked against the same layer stored as JSON
		n := gen.PickAny(r, []int{4096, 65535, 65536, 70000, 200000})
		doc := map[string]any{"a": 1, "pad": strings.Repeat("0123456789abcdef", n/16+1)[:n], "zz_after": map[string]any{"k": 2, "l": []any{"x", "y"}}}
		second := map[string]any{"second": true, "n": r.Intn(9)}
		ext := r.Pick("yaml", "yml")
		w.Files = append(w.Files, procsim.File{Path: filepath.Join(c08Dir, "bulk."+ext), Docs: treeDocs(doc, second)})
		c.Inv.Cwd = c08Dir
		c.Inv.Env = map[string]string{"VERIF_A": "va", "VERIF_B": "3"}
		c.Inv.Kind = r.Pick("inst", "stock")
		c.Inv.Sched = &wire.Sched{Mode: "Hash", Seed: r.U64() >> 1, Coin: 0.5}
		c.Inv.StepBudget = ProcStepBudget
		c.Inv.Args = []string{"-f", r.Pick("json", "yaml"), "bulk." + ext}
		return c
	}
	if r.Chance(0.04) {
		// values at a type boundary that only TOML can carry (nan, inf): an
		// encoder may refuse them late, after earlier documents of a large
		// stream have been encoded
		pad := strings.Repeat("0123456789abcdef", gen.PickAny(r, []int{10, 300, 4200, 9000}))
		special := r.Pick("nan", "inf", "-inf", "+inf", "1e400", "0.5")
		raw := "big = \"" + pad + "\"\nn = 1\n---\nratio = " + special + "\nafter = true\n"
		if r.Chance(0.3) {
			raw = "first = 1\n---\n" + raw
		}
		w.Files = append(w.Files, procsim.File{Path: filepath.Join(c08Dir, "floats.toml"), Raw: &raw})
		c.Inv.Cwd = c08Dir
		c.Inv.Env = map[string]string{"VERIF_A": "va", "VERIF_B": "3"}
		c.Inv.Kind = r.Pick("inst", "stock")
		c.Inv.Sched = &wire.Sched{Mode: "Hash", Seed: r.U64() >> 1, Coin: 0.5}
		c.Inv.StepBudget = ProcStepBudget
		c.Inv.Args = []string{"-f", r.Pick("json", "json-pretty", "json", "yaml", "toml"), "floats.toml"}
		c.Faults = append(c.Faults, "input:toml-special-floats")
		return c
	}
	for l := 0; l < nLayers; l++ {
		if l > 0 {
			name += "." + r.Pick("b", "c", "prod", "x")
		}
		var docs []any
		for d := 0; d < r.Range(1, 2); d++ {
			var doc any
			switch {
			case r.Chance(0.08):
				doc = cycleDoc(r)
			case r.Chance(0.03):
				doc = longNamesDoc(r)
			case l > 0 && first != nil && r.Chance(0.6):
				doc = child.Child(r, wire.Clone(first))
				if r.Chance(0.15) {
					doc.(map[string]any)["$match"] = gen.PickAny(r, []any{nil, map[string]any{}, map[string]any{"nope": 1}})
				}
			default:
				doc, _ = cfg.Program(r)
			}
			if first == nil {
				first = doc
			}
			docs = append(docs, doc)
		}
		ext := pickExt(r, docs, true)
		p := filepath.Join(c08Dir, name+"."+ext)
		if l == anchorAt {
			// YAML anchors, aliases and merge keys, well-formed and
			// self-referential (an anchor that contains its own alias)
			k := gen.PickAny(r, gen.DefaultKeys)
			raw := gen.PickAny(r, []string{
				k + ": &x {b: 1, c: [1, 2]}\nother: *x\n",
				"base: &b {p: 1, q: {r: 2}}\n" + k + ":\n  <<: *b\n  p: 3\n",
				"defs: [&a {x: 1}, &b {y: 2}]\n" + k + ":\n  <<: [*a, *b]\n  z: 3\n",
				k + ": &x [1, *x]\n",
				k + ": &x {b: *x}\n",
				k + ": &x\n  b: 1\n  self: *x\n",
				"l: &l\n- a\n- *l\n",
				k + ": &x {b: &y {c: *x}}\nz: *y\n",
				k + ":\n  $decode: yaml\n  $value: \"&x [*x]\"\n",
				k + ": &x {<<: *x, a: 1}\n",
				// other features of the formats that generated trees never use
				"\ufeff" + k + ": 1\nbom: true\n",
				k + ": 1\r\nb: [1, 2]\r\n---\r\nc: 3\r\n",
				k + ": |\n  line one\n  line two\nfolded: >\n  a\n  b\n\nafter: 1\n",
				k + ": !!str 123\nbin: !!binary aGVsbG8=\nt: 2001-12-14t21:59:43.10-05:00\nd: 2002-12-14\n",
				k + ": 0o14\nhex: 0xff\nund: 1_000\ninf: .inf\nnan: .nan\nneg0: -0.0\nbig: 123456789012345678901234567890\n",
				"? [complex, key]\n: v\n1: numeric key\ntrue: bool key\n",
				k + ": 1\n...\n---\n" + k + ": 2\n...\n",
				"---\n---\n" + k + ": 1\n---\n\n---\n# only a comment\n",
				"- top\n- level\n- list\n---\njust a scalar\n---\n42\n",
				k + ": {flow: [1, {deep: [2, {deeper: 3}]}], 'single': \"double\"}\n\ttab: 1\n",
				k + ": [1, 2\n  , 3]\n'quoted key': \"\\u00e9\\n\\t\"\n",
			})
			ext = "yaml"
			p = filepath.Join(c08Dir, name+".yaml")
			if r.Chance(0.3) {
				// the same idea for TOML and JSON
				ext = r.Pick("toml", "json")
				p = filepath.Join(c08Dir, name+"."+ext)
				if ext == "toml" {
					raw = gen.PickAny(r, []string{
						"a.b.c = 1\na.b.d = 2\n[t]\nx = 1\n[[arr]]\nn = 1\n[[arr]]\nn = 2\n",
						"d = 1979-05-27T07:32:00Z\nld = 1979-05-27\nlt = 07:32:00\nm = \"\"\"\nmulti\nline\"\"\"\nlit = 'C:\\path'\n",
						"x = 1\n+++\ny = 2\n---\nz = 3\n",
						"i = 9223372036854775807\nh = 0xDEADBEEF\no = 0o755\nb = 0b1101\nf = 6.626e-34\nu = 1_000\n",
						"inline = { a = 1, b = { c = [1, 2, { d = 3 }] } }\nempty = {}\narr = []\n",
						"\"quoted.key\" = 1\n'lit key' = 2\n\"\" = \"empty key\"\n",
					})
				} else {
					raw = gen.PickAny(r, []string{
						"{\"a\": 1, \"a\": 2, \"b\": {\"c\": 1, \"c\": {\"d\": 1}}}\n",
						"{\"n\": 123456789012345678901234567890, \"f\": 1e400, \"e\": 1E-400, \"neg\": -0}\n",
						"{\"s\": \"\\ud83d\\ude00 \\u0000 \\/ \\b\\f\"}\n   \n{\"second\": true}\n\n",
						"[1, [2, [3, [4, [5, [6, [7, [8, [9, [10]]]]]]]]]]\n",
						"  {\"ws\" :\t1 }\r\n{\"crlf\":2}\r\n",
						"\"top-level string\"\n42\nnull\ntrue\n[]\n{}\n",
					})
				}
			}
			w.Files = append(w.Files, procsim.File{Path: p, Raw: &raw})
			names = append(names, filepath.Base(p))
			c.Faults = append(c.Faults, "input:format-features")
			continue
		}
		w.Files = append(w.Files, procsim.File{Path: p, Docs: treeDocs(docs...), EscDollar: r.Chance(0.06), CRLF: ext != "toml" && r.Chance(0.06+0.1*float64(len(docs)-1))})
		names = append(names, name+"."+ext)
	}
	top := names[len(names)-1]
	inv := &c.Inv
	inv.Cwd = c08Dir
	inv.Env = map[string]string{"VERIF_A": "va", "VERIF_B": "3"}
	inv.Kind = "inst"
	if r.Chance(0.25) {
		inv.Kind = "stock"
	}
	inv.Sched = &wire.Sched{Mode: r.Pick("Hash", "Hash", "HashN", "Desc"), Seed: r.U64() >> 1, Coin: gen.PickAny(r, []float64{0, 0.5, 1})}
	inv.StepBudget = ProcStepBudget

	// a second, unrelated file for multi-input tools
	second := ""
	addSecond := func() string {
		if second != "" {
			return second
		}
		var doc any
		if r.Chance(0.5) && first != nil {
			m := child.Child(r, wire.Clone(first))
			doc = m
		} else {
			doc, _ = cfg.Program(r)
		}
		ext := pickExt(r, []any{doc}, true)
		second = "other." + ext
		w.Files = append(w.Files, procsim.File{Path: filepath.Join(c08Dir, second), Docs: treeDocs(doc)})
		return second
	}
	input := top
	if r.Chance(0.15) {
		// virtual extension
		input = strings.TrimSuffix(top, filepath.Ext(top)) + "." + r.Pick("json", "yaml", "toml", "yml", "jsonl")
	}
	switch c.Tool {
	case "bkl":
		if r.Chance(0.35) {
			inv.Args = append(inv.Args, "-f", r.Pick("json", "json-pretty", "yaml", "toml"))
		}
		if r.Chance(0.1) {
			inv.Args = append(inv.Args, "-P")
		}
		if r.Chance(0.1) {
			inv.Args = append(inv.Args, "-r", r.Pick(".", "..", "/"))
		}
		if r.Chance(0.05) {
			inv.Args = append(inv.Args, "-v")
		}
		inv.Args = append(inv.Args, input)
		if r.Chance(0.15) {
			inv.Args = append(inv.Args, addSecond())
		}
		if r.Chance(0.05) {
			inv.Args = append(inv.Args, "nosuch.yaml")
		}
	case "bkld":
		inv.Args = append(inv.Args, input, addSecond())
		if r.Chance(0.5) {
			inv.Args[0], inv.Args[1] = inv.Args[1], inv.Args[0]
		}
	case "bkli":
		inv.Args = append(inv.Args, input, addSecond())
		if r.Chance(0.3) {
			inv.Args = append(inv.Args, names[0])
		}
	case "bklr":
		inv.Args = append(inv.Args, input)
	case "bklb", "kubectl-bkl":
		if c.Tool == "bklb" {
			inv.Argv0 = "catb"
		} else {
			w.Links = append(w.Links, procsim.Link{Path: "bin/kubectl", Target: "/usr/bin/cat"})
		}
		// (one argument: with several, cat's own "print what exists, fail for
		// the rest" would be judged instead of the wrapper)
		inv.Args = append(inv.Args, input)
		if r.Chance(0.3) {
			// more than a pipe buffer of output for one argument
			for i := range w.Files {
				if len(w.Files[i].Docs) > 0 {
					if m, ok := w.Files[i].Docs[0].V.(map[string]any); ok {
						m["pad"] = strings.Repeat("0123456789abcdef", gen.PickAny(r, []int{300, 4096, 4200, 9000}))
						break
					}
				}
			}
		}
	}
	if c.Tool != "bkl" && c.Tool != "bklb" && c.Tool != "kubectl-bkl" && r.Chance(0.2) {
		inv.Args = append([]string{"-f", r.Pick("json", "yaml", "toml", "json-pretty")}, inv.Args...)
	}

	if r.Chance(0.04) {
		// the process environment is whatever the parent passed to execve:
		// entries without "=", with an empty name, twice the same name
		inv.RawEnv = [][]string{{"NOEQUALS"}, {"=leading"}, {"VERIF_A=again", "VERIF_A"}, {"", "X"}, {"\xff\xfe=\xff"}, {"VERIF_B"}}[r.Intn(6)]
		c.Faults = append(c.Faults, "env:malformed-entry")
	}

	// faults
	nf := gen.PickAny(r, []int{0, 0, 1, 1, 1, 2})
	for i := 0; i < nf; i++ {
		c.addFault(r, names)
	}
	return c
}

func (c *C08Case) addFault(r *gen.Rand, names []string) {
	w := &c.World
	inv := &c.Inv
	defer func() {
		// one object per path: a second fault of the same kind is dropped
		seen := map[string]bool{}
		var fs []procsim.File
		for _, f := range w.Files {
			if !seen[f.Path] {
				seen[f.Path] = true
				fs = append(fs, f)
			}
		}
		w.Files = fs
		var ls []procsim.Link
		for _, l := range w.Links {
			if !seen[l.Path] {
				seen[l.Path] = true
				ls = append(ls, l)
			}
		}
		w.Links = ls
		var ds []string
		for _, d := range w.Dirs {
			if !seen[d] {
				seen[d] = true
				ds = append(ds, d)
			}
		}
		w.Dirs = ds
	}()
	pickFile := func() *procsim.File { return &w.Files[r.Intn(len(w.Files))] }
	switch r.Intn(12) {
	case 0, 1, 2: // storage fault on layer bytes
		f := pickFile()
		s, ok := f.Bytes()
		if !ok {
			return
		}
		m, kind := mutateBytes(r, s)
		f.Raw, f.Docs = &m, nil
		c.Faults = append(c.Faults, "storage:"+kind)
	case 3: // $parent cycles and diamonds
		if r.Chance(0.25) {
			// a wide fan-out: one layer inheriting from a directory's worth of
			// layers (wildcard), each of which names two parents of its own —
			// more loads in flight than any pool or semaphore is sized for
			n := gen.PickAny(r, []int{3, 12, 17, 40})
			w.Dirs = append(w.Dirs, filepath.Join(c08Dir, "svc"))
			for k := 0; k < n; k++ {
				doc := map[string]any{"$parent": []any{"../fbase", "../fenv"}, "svc": k, "l": []any{k}}
				if r.Chance(0.5) {
					doc["pad"] = strings.Repeat("x", gen.PickAny(r, []int{10, 5000, 9000}))
				}
				w.Files = append(w.Files, procsim.File{Path: filepath.Join(c08Dir, "svc", fmt.Sprintf("s%02d.yaml", k)), Docs: treeDocs(doc)})
			}
			w.Files = append(w.Files, procsim.File{Path: filepath.Join(c08Dir, "fbase.yaml"), Docs: treeDocs(map[string]any{"base": 1, "l": []any{"b"}})})
			envDoc := map[string]any{"env": "e", "l": []any{"e"}}
			if r.Chance(0.2) {
				envDoc["$parent"] = "fall" // ... and a cycle through the fan-out
			}
			w.Files = append(w.Files, procsim.File{Path: filepath.Join(c08Dir, "fenv.yaml"), Docs: treeDocs(envDoc)})
			w.Files = append(w.Files, procsim.File{Path: filepath.Join(c08Dir, "fall.yaml"), Docs: treeDocs(map[string]any{"$parent": "svc/*", "all": true})})
			if c.Tool == "bkl" || c.Tool == "bklr" || c.Tool == "bklb" || c.Tool == "kubectl-bkl" {
				inv.Args = append(inv.Args[:len(inv.Args)-1], "fall.yaml")
			} else {
				inv.Args[len(inv.Args)-1] = "fall.yaml"
			}
			c.Faults = append(c.Faults, fmt.Sprintf("graph:wide-fan-out-%d", n))
			return
		}
		f := pickFile()
		if len(f.Docs) == 0 {
			return
		}
		m, ok := f.Docs[0].V.(map[string]any)
		if !ok {
			return
		}
		self := strings.TrimSuffix(filepath.Base(f.Path), filepath.Ext(f.Path))
		switch r.Intn(4) {
		case 0:
			m["$parent"] = self
			c.Faults = append(c.Faults, "graph:parent-self-loop")
		case 1:
			m["$parent"] = "q1"
			w.Files = append(w.Files, procsim.File{Path: filepath.Join(c08Dir, "q1.yaml"), Docs: treeDocs(map[string]any{"$parent": self, "q": 1})})
			c.Faults = append(c.Faults, "graph:parent-2-cycle")
		case 2:
			m["$parent"] = "q1"
			w.Files = append(w.Files, procsim.File{Path: filepath.Join(c08Dir, "q1.yaml"), Docs: treeDocs(map[string]any{"$parent": "q2", "q": 1})})
			w.Files = append(w.Files, procsim.File{Path: filepath.Join(c08Dir, "q2.json"), Docs: treeDocs(map[string]any{"$parent": self, "r": 1})})
			c.Faults = append(c.Faults, "graph:parent-3-cycle")
		default:
			m["$parent"] = []any{"q1", "q2"}
			w.Files = append(w.Files, procsim.File{Path: filepath.Join(c08Dir, "q1.yaml"), Docs: treeDocs(map[string]any{"$parent": "q0", "q": 1})})
			w.Files = append(w.Files, procsim.File{Path: filepath.Join(c08Dir, "q2.yaml"), Docs: treeDocs(map[string]any{"$parent": "q0", "r": 1})})
			w.Files = append(w.Files, procsim.File{Path: filepath.Join(c08Dir, "q0.yaml"), Docs: treeDocs(map[string]any{"$parent": false, "base": 1})})
			c.Faults = append(c.Faults, "graph:parent-diamond")
		}
	case 4: // symlink trouble
		if len(names) >= 2 && r.Chance(0.4) {
			// a layer replaced by a link to the layer above it: the link
			// inherits from its target's name, which makes it its own ancestor
			top := filepath.Join(c08Dir, names[len(names)-1])
			par := filepath.Join(c08Dir, names[len(names)-2])
			for k, f := range w.Files {
				if f.Path == par {
					w.Files = append(w.Files[:k], w.Files[k+1:]...)
					break
				}
			}
			tgt := filepath.Base(top)
			w.Links = append(w.Links, procsim.Link{Path: par, Target: tgt})
			c.Faults = append(c.Faults, "graph:symlink-own-ancestor")
			return
		}
		switch r.Intn(3) {
		case 0:
			w.Links = append(w.Links, procsim.Link{Path: filepath.Join(c08Dir, "loop.yaml"), Target: "loop.yaml"})
			inv.Args = append(inv.Args[:len(inv.Args)-1], "loop.yaml")
			c.Faults = append(c.Faults, "graph:symlink-loop")
		case 1:
			w.Links = append(w.Links, procsim.Link{Path: filepath.Join(c08Dir, "dang.yaml"), Target: "gone.yaml"})
			inv.Args = append(inv.Args[:len(inv.Args)-1], "dang.yaml")
			c.Faults = append(c.Faults, "graph:dangling-symlink")
		default:
			w.Links = append(w.Links, procsim.Link{Path: filepath.Join(c08Dir, "l1.x.yaml"), Target: "l2.x.yaml"}, procsim.Link{Path: filepath.Join(c08Dir, "l2.x.yaml"), Target: "l1.x.yaml"})
			inv.Args = append(inv.Args[:len(inv.Args)-1], "l1.x.yaml")
			c.Faults = append(c.Faults, "graph:symlink-2-loop")
		}
	case 5: // a layer is missing / is a directory
		if len(w.Files) < 2 {
			return
		}
		i := r.Intn(len(w.Files) - 1)
		p := w.Files[i].Path
		w.Files = append(w.Files[:i], w.Files[i+1:]...)
		if r.Chance(0.5) {
			w.Dirs = append(w.Dirs, p)
			c.Faults = append(c.Faults, "graph:directory-as-layer")
		} else {
			c.Faults = append(c.Faults, "graph:missing-layer")
		}
	case 6, 7: // I/O faults on a layer
		f := pickFile()
		in := procsim.Inject{Path: f.Path, Errno: r.Pick("EIO", "EACCES", "EMFILE", "ENOMEM")}
		if r.Chance(0.5) {
			in.Syscall = "openat"
		} else {
			in.Syscall = "read"
			in.Errno = r.Pick("EIO", "EINTR", "EIO")
			in.When = r.Pick("1", "2", "1+")
			if in.Errno == "EINTR" {
				// an interruption is transient by nature: one interrupted
				// read, then the retry succeeds (a read that is interrupted
				// forever is retried forever by the Go runtime itself)
				in.When = r.Pick("1", "2")
			}
		}
		for _, have := range inv.Injects {
			if have.Syscall == in.Syscall {
				return // strace keeps one injection rule per syscall
			}
		}
		inv.Injects = append(inv.Injects, in)
		c.Faults = append(c.Faults, "io:"+in.Syscall+":"+in.Errno)
	case 8, 9: // sink faults
		if r.Chance(0.5) {
			inv.StdoutTo = "/dev/full"
			c.Faults = append(c.Faults, "sink:stdout-full")
		} else {
			if c.OutFile != "" {
				return
			}
			c.OutFile = r.Pick("missing/out.json", "out.json/", ".", "/dev/full", "/proc/nope/x.yaml")
			if c.OutFile == "/dev/full" {
				inv.Args = append([]string{"-f", "json"}, inv.Args...)
			}
			inv.Args = append([]string{"-o", c.OutFile}, inv.Args...)
			c.Faults = append(c.Faults, "sink:unwritable-output-file")
		}
	case 10: // stdin as a layer
		if c.Tool != "bkl" {
			return
		}
		doc := cycleDoc(r)
		if r.Chance(0.5) {
			doc = map[string]any{"s": 1}
		}
		s, _ := gen.StreamText("yaml", []any{doc})
		if r.Chance(0.3) {
			s, _ = mutateBytes(r, s)
		} else {
			c.StdinDoc = &wire.Tree{V: doc}
		}
		inv.Stdin = s
		inv.Args = append(inv.Args, "--", "-.yaml")
		c.Faults = append(c.Faults, "input:stdin")
	default: // -o to a good file: stdout must stay empty
		if c.OutFile == "" {
			// an output path without an extension and no -f: the default format
			c.OutFile = r.Pick("result.json", "result.yaml", "result.toml", "result", "result.d/out")
			if strings.HasPrefix(c.OutFile, "result.d/") {
				w.Dirs = append(w.Dirs, filepath.Join(c08Dir, "result.d"))
			}
			inv.Args = append([]string{"-o", c.OutFile}, inv.Args...)
			c.Faults = append(c.Faults, "sink:output-file")
			if r.Chance(0.4) {
				// the disk fills up while the output file is written
				// ... at the first write, or — "short+": a file size limit of
				// a few bytes lets the first write through in part and the
				// error arrives on the second one, with n > 0 (stock binary
				// only: the limit applies to every regular file the tool writes)
				kind := r.Pick("ENOSPC", "EIO", "EPIPE", "short+EPIPE", "short+ENOSPC", "short+EIO", "short+EPIPE", "short+EFBIG")
				in := procsim.Inject{Syscall: "write", Path: filepath.Join(c08Dir, c.OutFile), Errno: kind}
				if strings.HasPrefix(kind, "short+") && (c.Tool == "bklb" || c.Tool == "kubectl-bkl") {
					kind = strings.TrimPrefix(kind, "short+") // the wrappers write temporary files of their own
					in.Errno = kind
				}
				if strings.HasPrefix(kind, "short+") {
					in.Errno = strings.TrimPrefix(kind, "short+")
					in.When = "2+"
					inv.FSize = int64(1 + len(c.OutFile)%7)
					inv.Kind = "stock"
					c.Faults = append(c.Faults, "sink:short-write-then-error")
				}
				if in.Errno != "EFBIG" { // EFBIG: the kernel's own answer to the limit, nothing injected
					inv.Injects = append(inv.Injects, in)
				}
				c.Faults = append(c.Faults, "io:write:output-file")
			}
		}
	}
}

type c08Obs struct {
	Clause  string           `json:"clause"`
	Outcome *procsim.Outcome `json:"outcome,omitempty"`
	Note    string           `json:"note,omitempty"`
}

func trimOutcome(o *procsim.Outcome) *procsim.Outcome {
	if o == nil {
		return nil
	}
	c := *o
	c.Stdout = short(c.Stdout, 1500)
	c.Stderr = short(c.Stderr, 2500)
	c.Opened, c.Attempted = nil, nil
	return &c
}

// outputFormat guesses the format the tool writes to stdout.
func c08OutputFormat(c *C08Case) string {
	for i, a := range c.Inv.Args {
		if a == "-f" && i+1 < len(c.Inv.Args) {
			return c.Inv.Args[i+1]
		}
	}
	first, n := "", 0
	for _, a := range c.Inv.Args {
		if !strings.HasPrefix(a, "-") && a != c.OutFile {
			if n == 0 {
				first = procsim.Ext(a)
			}
			n++
		}
	}
	if (c.Tool == "bklb" || c.Tool == "kubectl-bkl") && n > 1 {
		// cat prints one stream per argument, each in its own format
		return ""
	}
	return first
}

// judgeC08 runs the case and applies the trichotomy.
func judgeC08(e *Env, c *C08Case, tag string, run int64) (*c08Obs, *procsim.Outcome, error) {
	var obs *c08Obs
	var out *procsim.Outcome
	err := withWorld(e, tag, run, &c.World, func(root string) error {
		var err error
		out, err = runInv(e, root, c.Tool, &c.Inv)
		if err != nil {
			return err
		}
		viol := func(clause, note string) { obs = &c08Obs{Clause: clause, Outcome: trimOutcome(out), Note: note} }
		switch {
		case out.Crash != "":
			viol("crash", out.Crash)
		case out.Blocked:
			viol("no-termination-blocked-forever", "every thread slept for 10 s without consuming CPU time while nothing was left to wait for")
		case out.StepsOut:
			viol("no-termination-within-step-budget", fmt.Sprintf("%d evaluator steps", ProcStepBudget))
		case out.CPUOut:
			// confirm with six times the CPU budget so that a slow machine cannot raise an alarm
			i2 := c.Inv
			i2.CPUSeconds = 60
			o2, err := runInv(e, root, c.Tool, &i2)
			if err != nil {
				return err
			}
			if o2.CPUOut {
				out = o2
				viol("no-termination-within-cpu-budget", "10 and then 60 CPU-seconds")
			} else if o2.Crash != "" {
				out = o2
				viol("crash", o2.Crash)
			}
		case out.Signal != "":
			viol("killed-by-signal", out.Signal)
		case out.Status == 0:
			if out.Injected > 0 {
				// a layer could not be opened or read (injected I/O error that
				// fired): whatever was printed cannot be the complete output
				for _, in := range c.Inv.Injects {
					if (in.Syscall == "read" || in.Syscall == "openat") && in.Errno != "EINTR" && out.InjectedBy[in.Syscall] > 0 {
						viol("exit-0-despite-failed-layer-io", in.Syscall+" of "+in.Path+" failed with "+in.Errno+" and the tool exited 0")
						return nil
					}
				}
			}
			if c.Inv.StdoutTo == "/dev/full" {
				// does the same run write anything? then exit 0 with a failed sink is wrong
				i2 := c.Inv
				i2.StdoutTo = ""
				o2, err := runInv(e, root, c.Tool, &i2)
				if err != nil {
					return err
				}
				if o2.Status == 0 && len(o2.Stdout) > 0 {
					viol("exit-0-with-failed-sink", "stdout was /dev/full and the tool writes "+fmt.Sprint(len(o2.Stdout))+" bytes")
				}
				return nil
			}
			if c.OutFile != "" {
				for _, in := range c.Inv.Injects {
					if in.Syscall == "write" && out.InjectedBy["write"] > 0 {
						viol("exit-0-with-failed-sink", "a write to the output file failed with "+in.Errno+" and the tool exited 0")
						return nil
					}
				}
				if out.Stdout != "" {
					viol("stdout-not-empty-with-output-file", "")
					return nil
				}
				p := c.OutFile
				if !filepath.IsAbs(p) {
					p = filepath.Join(root, c.Inv.Cwd, p)
				}
				fi, serr := os.Stat(p)
				if serr != nil || (fi.Mode().IsRegular() && false) {
					viol("exit-0-without-output-file", fmt.Sprint(serr))
					return nil
				}
				if fi.Mode().IsRegular() {
					// the file must hold what the same world writes to stdout
					i2 := c.Inv
					i2.Args = dropOutFlag(c.Tool, c.Inv.Args, c.OutFile, procsim.Ext(c.OutFile))
					o2, err := runInv(e, root, c.Tool, &i2)
					if err != nil {
						return err
					}
					b, _ := os.ReadFile(p)
					if o2.Status == 0 && o2.Crash == "" && string(b) != o2.Stdout {
						viol("output-file-differs-from-stdout", "file: "+short(string(b), 300)+" stdout: "+short(o2.Stdout, 300))
					}
				}
				return nil
			}
			f := c08OutputFormat(c)
			if (f == "json" || f == "jsonl" || f == "json-pretty") && !jsonStreamOK(out.Stdout) {
				viol("incomplete-output-with-exit-0", "stdout does not decode as a JSON stream")
			}
			if (f == "yaml" || f == "yml") && !yamlStreamOK(out.Stdout) {
				viol("incomplete-output-with-exit-0", "stdout does not decode as a YAML stream")
			}
			// TOML is not decoded: bkl prints a top-level list or scalar as
			// "TOML" text that no TOML decoder accepts ("[]", "'x'") — a format
			// round-trip matter (C05, not claimed), not an incomplete output
		default:
			if out.Stdout != "" {
				viol("output-with-nonzero-status", "")
			} else if strings.TrimSpace(out.Stderr) == "" {
				viol("silent-failure", "non-zero status and nothing on stderr")
			}
		}
		return nil
	})
	return obs, out, err
}

var streamSep = regexp.MustCompile(`(?m)^---$`)

// yamlStreamOK decodes what a tool printed with an independent decoder (documents separated by lines holding only ---).
func yamlStreamOK(s string) bool {
	for _, part := range streamSep.Split(s, -1) {
		var v any
		if err := yaml.Unmarshal([]byte(part), &v); err != nil {
			return false
		}
	}
	return true
}

// formatSafe reports whether YAML and JSON decode a tree to the same values:
// strings, bools and small integers only (floats and 64-bit integers are where
// the decoders are known to differ — C04, not claimed).
func formatSafe(v any) bool {
	switch x := v.(type) {
	case map[string]any:
		for _, e := range x {
			if !formatSafe(e) {
				return false
			}
		}
		return true
	case []any:
		for _, e := range x {
			if !formatSafe(e) {
				return false
			}
		}
		return true
	case int:
		return x > -(1<<31) && x < 1<<31
	case string, bool:
		return true
	case nil:
		return true
	}
	return false
}

// jsonTwin returns the same world with every YAML layer stored as JSON and
// the same invocation with the output format pinned, or nil if the case is
// not eligible (faults, raw bytes, TOML, values on which the decoders differ).
func jsonTwin(c *C08Case) *C08Case {
	if c.Tool != "bkl" || len(c.Faults) > 0 || c.OutFile != "" || c.Inv.Stdin != "" || len(c.World.Links) > 0 {
		return nil
	}
	js, _ := json.Marshal(c)
	var n C08Case
	if json.Unmarshal(js, &n) != nil {
		return nil
	}
	renamed := map[string]string{}
	any := false
	for i := range n.World.Files {
		f := &n.World.Files[i]
		if f.Raw != nil {
			return nil
		}
		e := procsim.Ext(f.Path)
		if e == "toml" {
			return nil
		}
		for _, d := range f.Docs {
			if !formatSafe(d.V) {
				return nil
			}
		}
		if e == "yaml" || e == "yml" {
			np := strings.TrimSuffix(f.Path, "."+e) + ".json"
			renamed[filepath.Base(f.Path)] = filepath.Base(np)
			f.Path = np
			f.CRLF = false
			any = true
		}
	}
	if !any {
		return nil
	}
	format := c08OutputFormat(c)
	hasF := false
	for i, a := range n.Inv.Args {
		if a == "-f" {
			hasF = true
		}
		if to, ok := renamed[a]; ok {
			n.Inv.Args[i] = to
		}
	}
	if !hasF {
		if format == "yml" {
			format = "yaml"
		}
		if format == "jsonl" {
			format = "json"
		}
		if format != "json" && format != "yaml" && format != "toml" && format != "json-pretty" {
			return nil
		}
		n.Inv.Args = append([]string{"-f", format}, n.Inv.Args...)
	}
	return &n
}

// dropOutFlag removes "-o file" and pins the format the file would have had.
func dropOutFlag(tool string, args []string, file, ext string) []string {
	var out []string
	hasF := false
	for _, a := range args {
		if a == "-f" {
			hasF = true
		}
	}
	for i := 0; i < len(args); i++ {
		if args[i] == "-o" && i+1 < len(args) && args[i+1] == file {
			i++
			continue
		}
		out = append(out, args[i])
	}
	if !hasF && ext == "" && tool == "bkl" {
		// documented default of OutputToFile / OutputToWriter for a path
		// without an extension (the other tools fall back to the format of
		// their first input, for a file as for stdout)
		ext = "json-pretty"
	}
	if !hasF && ext != "" {
		out = append([]string{"-f", ext}, out...)
	}
	return out
}

func c08Candidates(c *C08Case) []*C08Case {
	var out []*C08Case
	clone := func() *C08Case {
		js, _ := json.Marshal(c)
		var n C08Case
		_ = json.Unmarshal(js, &n)
		return &n
	}
	inArgs := func(p string) bool {
		for _, a := range c.Inv.Args {
			if a == filepath.Base(p) {
				return true
			}
		}
		return false
	}
	for i, f := range c.World.Files {
		if inArgs(f.Path) {
			continue
		}
		n := clone()
		n.World.Files = append(n.World.Files[:i], n.World.Files[i+1:]...)
		out = append(out, n)
	}
	for i := range c.World.Links {
		n := clone()
		n.World.Links = append(n.World.Links[:i], n.World.Links[i+1:]...)
		out = append(out, n)
	}
	for i := range c.Inv.Injects {
		n := clone()
		n.Inv.Injects = append(n.Inv.Injects[:i], n.Inv.Injects[i+1:]...)
		out = append(out, n)
	}
	if c.Inv.Kind == "inst" && c.Inv.Sched != nil && c.Inv.Sched.Mode != "Asc" {
		n := clone()
		n.Inv.Sched = &wire.Sched{Mode: "Asc"}
		out = append(out, n)
	}
	// drop flags (never positional arguments)
	for i := 0; i < len(c.Inv.Args); i++ {
		a := c.Inv.Args[i]
		if a == "-P" || a == "-v" {
			n := clone()
			n.Inv.Args = append(n.Inv.Args[:i], n.Inv.Args[i+1:]...)
			out = append(out, n)
		}
		if (a == "-f" || a == "-r") && i+1 < len(c.Inv.Args) {
			n := clone()
			n.Inv.Args = append(n.Inv.Args[:i], n.Inv.Args[i+2:]...)
			out = append(out, n)
		}
	}
	for fi, f := range c.World.Files {
		if len(f.Docs) > 1 {
			for d := range f.Docs {
				n := clone()
				n.World.Files[fi].Docs = append(n.World.Files[fi].Docs[:d], n.World.Files[fi].Docs[d+1:]...)
				out = append(out, n)
			}
		}
		for d := range f.Docs {
			for _, s := range gen.Simpler(f.Docs[d].V) {
				n := clone()
				n.World.Files[fi].Docs[d] = wire.Tree{V: s}
				out = append(out, n)
			}
		}
		if f.Raw != nil && len(*f.Raw) > 1 {
			raw := *f.Raw
			for _, cut := range []string{raw[:len(raw)/2], raw[len(raw)/2:], raw[:len(raw)-1], raw[1:]} {
				n := clone()
				s := cut
				n.World.Files[fi].Raw = &s
				out = append(out, n)
			}
		}
	}
	return out
}

// docRef is one $merge/$replace reference: where it sits and what it names
// (both as key paths from the document root; list indices are ignored).
type docRef struct{ host, target []string }

func collectRefs(doc any) []docRef {
	var out []docRef
	refKeys := func(v any) ([]string, bool) {
		switch x := v.(type) {
		case string:
			if strings.HasPrefix(x, "[") {
				var l []string
				if json.Unmarshal([]byte(x), &l) == nil {
					return l, true
				}
				return nil, false
			}
			if x == "" {
				return nil, false
			}
			return strings.Split(x, "."), true
		case []any:
			l := []string{}
			for _, e := range x {
				s, ok := e.(string)
				if !ok {
					return nil, false
				}
				l = append(l, s)
			}
			return l, true
		}
		return nil, false
	}
	var walk func(v any, pos []string)
	walk = func(v any, pos []string) {
		switch x := v.(type) {
		case map[string]any:
			for _, dk := range []string{"$merge", "$replace"} {
				if rv, ok := x[dk]; ok {
					if t, ok := refKeys(rv); ok {
						out = append(out, docRef{append([]string{}, pos...), t})
					}
				}
			}
			for _, k := range gen.SortedKeys(x) {
				walk(x[k], append(append([]string{}, pos...), k))
			}
		case []any:
			for _, e := range x {
				walk(e, pos) // a reference in a list entry sits at the list's position
			}
		case string:
			for _, pre := range []string{"$merge:", "$replace:"} {
				if strings.HasPrefix(x, pre) {
					if t, ok := refKeys(strings.TrimPrefix(x, pre)); ok {
						out = append(out, docRef{append([]string{}, pos...), t})
					}
				}
			}
		}
	}
	walk(doc, nil)
	return out
}

func keyPrefix(a, b []string) bool {
	if len(a) > len(b) {
		return false
	}
	for i := range a {
		if a[i] != b[i] {
			return false
		}
	}
	return true
}

// branchingRefCycle reports the size of the largest set of references that
// all reach one another: reference r reaches r' when r' sits inside what r
// names (expanding r copies r' along). One self-containing reference is an
// ordinary cycle (the depth guard reports it); two or more that reach each
// other double the subtree at every expansion — the listed known finding.
func branchingRefCycle(refs []docRef) int {
	n := len(refs)
	if n > 64 {
		n = 64
	}
	reach := make([][]bool, n)
	for i := 0; i < n; i++ {
		reach[i] = make([]bool, n)
		for j := 0; j < n; j++ {
			reach[i][j] = keyPrefix(refs[i].target, refs[j].host)
		}
	}
	for k := 0; k < n; k++ {
		for i := 0; i < n; i++ {
			for j := 0; j < n; j++ {
				if reach[i][k] && reach[k][j] {
					reach[i][j] = true
				}
			}
		}
	}
	best := 0
	for i := 0; i < n; i++ {
		if !reach[i][i] {
			continue
		}
		size := 0
		for j := 0; j < n; j++ {
			if reach[i][j] && reach[j][i] {
				size++
			}
		}
		if size > best {
			best = size
		}
	}
	return best
}

// parseLoose reads raw layer bytes (YAML, which includes JSON) for the
// known-finding predicate only; anything unparsable yields nothing.
func parseLoose(raw string) []any {
	var out []any
	for _, part := range regexp.MustCompile(`(?m)^---$`).Split(raw, -1) {
		// several JSON values may follow each other in one part (jsonl)
		dec := yaml.NewDecoder(strings.NewReader(part))
		for i := 0; i < 16; i++ {
			var n yaml.Node
			if err := dec.Decode(&n); err != nil {
				break
			}
			out = append(out, nodeToAny(&n, 0))
		}
		// TOML layers
		var tv map[string]any
		if toml.Unmarshal([]byte(part), &tv) == nil && len(tv) > 0 {
			out = append(out, tv)
		}
		// JSON streams without separators: also try each line on its own
		for _, line := range strings.Split(part, "\n") {
			var n yaml.Node
			if strings.HasPrefix(strings.TrimSpace(line), "{") && yaml.Unmarshal([]byte(line), &n) == nil {
				out = append(out, nodeToAny(&n, 0))
			}
		}
	}
	return out
}

// nodeToAny converts a YAML node tree to plain maps/lists/strings, tolerating
// duplicate keys (last one wins, as in encoding/json).
func nodeToAny(n *yaml.Node, depth int) any {
	if n == nil || depth > 64 {
		return nil
	}
	switch n.Kind {
	case yaml.DocumentNode:
		if len(n.Content) > 0 {
			return nodeToAny(n.Content[0], depth+1)
		}
		return nil
	case yaml.MappingNode:
		m := map[string]any{}
		for i := 0; i+1 < len(n.Content); i += 2 {
			m[n.Content[i].Value] = nodeToAny(n.Content[i+1], depth+1)
		}
		return m
	case yaml.SequenceNode:
		l := []any{}
		for _, c := range n.Content {
			l = append(l, nodeToAny(c, depth+1))
		}
		return l
	case yaml.AliasNode:
		return nodeToAny(n.Alias, depth+1)
	default:
		return n.Value
	}
}

// c08Known names the known-finding predicate a minimised case satisfies.
func c08Known(c *C08Case, o *c08Obs) string {
	if o == nil || o.Outcome == nil {
		return ""
	}
	exhaustion := o.Clause == "no-termination-within-step-budget" || o.Clause == "no-termination-within-cpu-budget" ||
		(o.Clause == "crash" && (strings.Contains(o.Outcome.Stderr, "stack overflow") || strings.Contains(o.Outcome.Stderr, "out of memory") || strings.Contains(o.Outcome.Stderr, "cannot allocate memory") || strings.Contains(o.Outcome.Stderr, "goroutine stack exceeds")))
	if !exhaustion {
		return ""
	}
	// layers are merged into one document before evaluation: the references
	// may come from different files of the chain
	var refs []docRef
	for _, f := range c.World.Files {
		for _, d := range f.Docs {
			refs = append(refs, collectRefs(d.V)...)
		}
		if f.Raw != nil {
			for _, d := range parseLoose(*f.Raw) {
				refs = append(refs, collectRefs(d)...)
			}
		}
	}
	if c.StdinDoc != nil && c.Inv.Stdin != "" {
		refs = append(refs, collectRefs(c.StdinDoc.V)...)
	}
	if c.StdinDoc == nil && c.Inv.Stdin != "" {
		for _, d := range parseLoose(c.Inv.Stdin) {
			refs = append(refs, collectRefs(d)...)
		}
	}
	if branchingRefCycle(refs) >= 2 {
		return "c08-branching-self-reference"
	}
	return ""
}

// RunC08 is the check for property C08.
func RunC08(e *Env) (int, error) {
	ev := e.Ev
	n := e.N(6000, 150000)

	fn := func(run int64) harness.RunResult {
		r := gen.New(e.Seed, "C08", run)
		c := genC08(r)
		t1 := time.Now()
		obs, out, err := judgeC08(e, c, "run", run)
		if err != nil {
			return harness.RunResult{Err: err}
		}
		if d := time.Since(t1); d > 3*time.Second {
			ev.Count("slow_runs_over_3s", 1)
			if os.Getenv("VERIF_DEBUG_SLOW") != "" {
				js, _ := json.Marshal(c)
				fmt.Fprintf(os.Stderr, "SLOW %.1fs run=%d status=%d crash=%q stepsout=%v cpuout=%v %s\n", d.Seconds(), run, out.Status, out.Crash, out.StepsOut, out.CPUOut, short(string(js), 600))
			}
		}
		if out.Crash == "" && c.Inv.Kind == "stock" {
			// the Go runtime picks the iteration order: which of several errors is reported may vary
			e.Log(run, c, out.Status == 0, out.Stdout)
		} else if out.Crash == "" {
			e.Log(run, c, out.Status, out.Stdout, out.Stderr, out.Steps, out.Sig, out.Injected)
		} else {
			e.Log(run, c, "crash")
		}
		fired := false
		for _, f := range c.Faults {
			if strings.HasPrefix(f, "io:") {
				if out.Injected > 0 {
					ev.Count("fault_fired."+f, 1)
					fired = true
				} else {
					ev.Count("fault_configured_not_reached.io", 1)
				}
				continue
			}
			ev.Count("fault_fired."+f, 1)
			fired = true
		}
		reached := out.Status == 0 || out.Steps > 200 || strings.Contains(out.Stderr, "bkl error")
		key := ""
		if reached || fired {
			js, _ := json.Marshal(c)
			key = string(js)
		}
		ev.Eval(key)
		ev.Count("tool."+c.Tool, 1)
		ev.Count("binary."+c.Inv.Kind, 1)
		if out.Status == 0 {
			ev.Count("outcome.exit0", 1)
		} else {
			ev.Count("outcome.error_exit", 1)
		}
		if out.Steps > 0 {
			ev.Max("max_steps_terminating_run", out.Steps)
		}
		if out.Sig != "" {
			ev.Distinct("schedules", out.Sig)
		}
		ev.Distinct("outcomes", fmt.Sprintf("%d|%s|%s", out.Status, out.Stdout, out.Stderr))
		if key != "" {
			ev.Sample(map[string]any{"tool": c.Tool, "args": c.Inv.Args, "faults": c.Faults, "files": len(c.World.Files), "status": out.Status})
		}
		if obs == nil && out.Status == 0 && out.Crash == "" {
			// "complete output": the same layers stored as JSON instead of
			// YAML must print the same thing (a decoder that silently drops
			// part of a layer shows up here)
			if tw := jsonTwin(c); tw != nil {
				_, o2, err := judgeC08(e, tw, "twin", run)
				if err != nil {
					return harness.RunResult{Err: err}
				}
				ev.Eval("")
				ev.Count("yaml_vs_json_twin_comparisons", 1)
				if o2.Crash == "" && !o2.StepsOut && !o2.CPUOut && (o2.Status != 0 || o2.Stdout != out.Stdout) {
					obs = &c08Obs{Clause: "incomplete-output-compared-with-json-twin", Outcome: trimOutcome(out),
						Note: fmt.Sprintf("the same layers stored as JSON print (status %d) %s", o2.Status, short(o2.Stdout, 400))}
				}
			}
		}
		if obs == nil {
			return harness.RunResult{}
		}
		return harness.RunResult{Violation: &harness.Violation{Property: "C08", Check: "trichotomy", Clause: obs.Clause, Seed: e.Seed, Run: run, Case: c, Observed: obs}}
	}

	finish := func(v *harness.Violation) (*harness.Violation, string) {
		c := v.Case.(*C08Case)
		if v.Clause == "incomplete-output-compared-with-json-twin" {
			return v, "" // a pair clause: reported as found (the replayer re-runs both serialisations)
		}
		if o, ok := v.Observed.(*c08Obs); ok {
			if key := c08Known(c, o); key != "" {
				// already recognisable as the listed finding: no need to
				// burn the resource budget a dozen more times minimising it
				return v, key
			}
		}
		obs, _, err := judgeC08(e, c, "confirm", v.Run)
		if err != nil || obs == nil || obs.Clause != v.Clause {
			v.Note = "did not reproduce on re-execution"
			return v, ""
		}
		k := 0
		budget := 300
		if strings.HasPrefix(v.Clause, "no-termination") || strings.Contains(fmt.Sprint(v.Observed), "out of memory") {
			budget = 12 // every re-execution burns the whole budget
		}
		min, used := harness.Shrink(c, c08Candidates, func(cand *C08Case) bool {
			k++
			o, _, err := judgeC08(e, cand, "shrink", v.Run*1000+int64(k))
			return err == nil && o != nil && o.Clause == v.Clause
		}, budget)
		o, _, _ := judgeC08(e, min, "final", v.Run)
		v.Case, v.Shrunk, v.ShrinkExecs = min, true, used
		if o != nil {
			v.Observed = o
		}
		return v, c08Known(min, o)
	}

	t0 := time.Now()
	// the listed known finding, on its canonical input
	{
		c := c08Sentinel()
		obs, _, err := judgeC08(e, c, "sentinel", 0)
		if err != nil {
			return 0, err
		}
		ev.Eval("")
		if obs != nil {
			v := &harness.Violation{Property: "C08", Check: "trichotomy", Clause: obs.Clause, Seed: e.Seed, Run: -1, Case: c, Observed: obs}
			if e.Report(v, c08Known(c, obs)) {
				return 1, nil
			}
		}
	}
	viol, err := e.Drive(n, fn, finish)
	ev.Coverage["rule"] = "each run builds a world (1-3 layers x 1-2 documents from the program generator incl. hand-shaped reference cycles, any of yaml/json/toml, optional second input) and one invocation of bkl/bkld/bkli/bklr — or of bklb/kubectl-bkl wrapped around cat with one file argument and, in a third of those, more than a pipe buffer of output — with random flags (incl. -o paths without an extension), environment entries that are not NAME=value in 4% of the runs, then plants 0-2 faults: storage faults on layer bytes (torn write, bit flip, lost/duplicated span, inserted token, random bytes), file-graph faults ($parent self-loop/2-/3-cycle/diamond, symlink loops, dangling links, missing layer, directory as layer), syscall faults through strace (openat/read -> EIO/EACCES/EMFILE/ENOMEM/EINTR on a layer path), sink faults (stdout=/dev/full, unwritable -o, an injected ENOSPC/EIO/EPIPE on the first write to the -o file, or a short first write under a file size limit of 1-7 bytes followed by EPIPE/ENOSPC/EIO/EFBIG on the second — stock bkl/bkld/bkli/bklr only), stdin layers; 3/4 of the runs use the instrumented binary (seeded iteration order, step budget), 1/4 the stock binary; oracle = exit/stdout/stderr trichotomy + crash signature + step/CPU/memory budget + blocked-forever (all threads asleep, no CPU for 10 s, nothing left to wait for); non-trivial = the input reached evaluation or a fault fired; distinct = canonical world+invocation"
	ev.Coverage["loop_seconds"] = time.Since(t0).Seconds()
	ev.Coverage["budgets"] = map[string]any{"evaluator_steps": ProcStepBudget, "cpu_seconds": 10, "cpu_seconds_confirm": 60, "address_space_bytes": int64(2) << 30}
	ev.Assumptions = []string{
		"a fault counts as fired only when strace reports the injected error (io) or the faulted object is part of the world the tool was pointed at",
		"the value of a non-zero exit status is not interpreted",
		"CPU time, not wall time, is limited; a CPU-limit hit is confirmed at 60 CPU-seconds before it is called a hang",
		"go-flags usage/help output is outside the workload (no -h/--help)",
	}
	components(ev, e.Tree, []string{"bkl, bkld, bkli, bklr binaries built from the working tree (instrumented and stock), real filesystem objects, /dev/full, strace syscall injection"}, []string{})
	return viol, err
}

func init() {
	replayers["C08/trichotomy"] = func(e *Env, raw []byte) (string, any, error) {
		var v struct {
			Clause string  `json:"clause"`
			Run    int64   `json:"run"`
			Case   C08Case `json:"case"`
		}
		if err := json.Unmarshal(raw, &v); err != nil {
			return "", nil, err
		}
		o, out, err := judgeC08(e, &v.Case, "replay", v.Run)
		if err != nil {
			return "", nil, err
		}
		if v.Clause == "incomplete-output-compared-with-json-twin" && o == nil && out != nil {
			if tw := jsonTwin(&v.Case); tw != nil {
				_, o2, err := judgeC08(e, tw, "replay-twin", v.Run)
				if err != nil {
					return "", nil, err
				}
				if o2.Status != out.Status || o2.Stdout != out.Stdout {
					return v.Clause, &c08Obs{Clause: v.Clause, Outcome: trimOutcome(out), Note: "JSON twin prints: " + short(o2.Stdout, 400)}, nil
				}
			}
			return "", nil, nil
		}
		if o == nil || o.Clause != v.Clause {
			return "", o, nil
		}
		return o.Clause, o, nil
	}
}
