package checks

// runC09Proc is sub-check 4 (fresh stock CLI processes); see procsim.
func runC09Proc(e *Env) (int, error) { return 0, nil }
