package checks

import (
	"encoding/json"
	"fmt"
	"os"
	"strings"

	"verif/internal/gen"
	"verif/internal/harness"
	"verif/internal/procsim"
)

// C09ProcCase is a fault-free world run several times as fresh processes of
// the stock CLI (the Go runtime picks the map order).
type C09ProcCase struct {
	World procsim.World      `json:"world"`
	Tool  string             `json:"tool"`
	Inv   procsim.Invocation `json:"invocation"`
	Runs  []string           `json:"gomaxprocs"`
}

func judgeC09Proc(e *Env, c *C09ProcCase, tag string, run int64) (*c09Obs, bool, error) {
	var obs *c09Obs
	skipped := false
	err := withWorld(e, tag, run, &c.World, func(root string) error {
		var first *procsim.Outcome
		for i, gmp := range c.Runs {
			inv := c.Inv
			inv.Kind = "stock"
			inv.Env = map[string]string{"VERIF_A": "va", "VERIF_B": "3", "GOMAXPROCS": gmp}
			out, err := runInv(e, root, c.Tool, &inv)
			if err != nil {
				return err
			}
			if out.Crash != "" || out.CPUOut || out.Signal != "" {
				skipped = true // C08's subject
				return nil
			}
			if first == nil {
				first = out
				continue
			}
			if (first.Status == 0) != (out.Status == 0) || first.Stdout != out.Stdout {
				obs = &c09Obs{Clause: "fresh-process-dependent-result", Op: i,
					Got:  short(fmt.Sprintf("status %d stdout %s", out.Status, out.Stdout), 700),
					Want: short(fmt.Sprintf("status %d stdout %s", first.Status, first.Stdout), 700)}
				return nil
			}
		}
		return nil
	})
	return obs, skipped, err
}

// runC09Proc is sub-check 4: the stock CLI, several fresh processes per
// world, real runtime map order, GOMAXPROCS 1 and 16.
func runC09Proc(e *Env) (int, error) {
	ev := e.Ev
	n := e.N(250, 5000) / 10
	if n < 4 {
		n = 4
	}
	if os.Getenv("VERIF_RUNS") == "" {
		n = int64(e.Pick(250, 5000))
	}
	fn := func(run int64) harness.RunResult {
		r := gen.New(e.Seed, "C09-proc", run)
		g := genC08(r)
		// fault-free variant of the C08 world: plain files, pipe as sink
		c := &C09ProcCase{World: g.World, Tool: g.Tool, Inv: g.Inv, Runs: []string{"1", "16", "1", "16", "4", "16"}}
		c.Inv.Injects, c.Inv.StdoutTo, c.Inv.Sched = nil, "", nil
		if g.OutFile != "" || strings.Contains(strings.Join(g.Faults, " "), "symlink") {
			return harness.RunResult{}
		}
		obs, skipped, err := judgeC09Proc(e, c, "proc", run)
		if err != nil {
			return harness.RunResult{Err: err}
		}
		if skipped {
			ev.Count("skipped_resource_exhaustion", 1)
			return harness.RunResult{}
		}
		ev.Eval("")
		ev.Count("fresh_process_worlds", 1)
		ev.Count("fresh_process_runs", int64(len(c.Runs)))
		if obs == nil {
			return harness.RunResult{}
		}
		return harness.RunResult{Violation: &harness.Violation{Property: "C09", Check: "processes", Clause: obs.Clause, Seed: e.Seed, Run: run, Case: c, Observed: obs}}
	}
	return e.Drive(n, fn, nil)
}

func init() {
	replayers["C09/processes"] = func(e *Env, raw []byte) (string, any, error) {
		var v struct {
			Clause string      `json:"clause"`
			Run    int64       `json:"run"`
			Case   C09ProcCase `json:"case"`
		}
		if err := json.Unmarshal(raw, &v); err != nil {
			return "", nil, err
		}
		// the runtime picks the order: repeat a few times
		for k := 0; k < 10; k++ {
			o, _, err := judgeC09Proc(e, &v.Case, "replay", v.Run+int64(k))
			if err != nil {
				return "", nil, err
			}
			if o != nil && o.Clause == v.Clause {
				return o.Clause, o, nil
			}
		}
		return "", nil, nil
	}
}
