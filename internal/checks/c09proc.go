package checks

import (
	"encoding/json"
	"fmt"
	"os"
	"strings"

	"verif/internal/gen"
	"verif/internal/harness"
	"verif/internal/procsim"
)

// C09ProcCase is a fault-free world run several times as fresh processes of
// the stock CLI (the Go runtime picks the map order).
type C09ProcCase struct {
	World procsim.World      `json:"world"`
	Tool  string             `json:"tool"`
	Inv   procsim.Invocation `json:"invocation"`
	Runs  []string           `json:"gomaxprocs"`
}

func judgeC09Proc(e *Env, c *C09ProcCase, tag string, run int64) (*c09Obs, bool, error) {
	var obs *c09Obs
	skipped := false
	err := withWorld(e, tag, run, &c.World, func(root string) error {
		var first *procsim.Outcome
		for i, gmp := range c.Runs {
			inv := c.Inv
			inv.Kind = "stock"
			inv.Env = map[string]string{"VERIF_A": "va", "VERIF_B": "3", "GOMAXPROCS": gmp}
			out, err := runInv(e, root, c.Tool, &inv)
			if err != nil {
				return err
			}
			if out.Crash != "" || out.CPUOut || out.Blocked || out.Signal != "" {
				skipped = true // C08's subject
				return nil
			}
			if first == nil {
				first = out
				continue
			}
			if (first.Status == 0) != (out.Status == 0) || first.Stdout != out.Stdout {
				obs = &c09Obs{Clause: "fresh-process-dependent-result", Op: i,
					Got:  short(fmt.Sprintf("status %d stdout %s", out.Status, out.Stdout), 700),
					Want: short(fmt.Sprintf("status %d stdout %s", first.Status, first.Stdout), 700)}
				return nil
			}
		}
		return nil
	})
	return obs, skipped, err
}

// C09StdinCase: the same bytes on stdin, delivered in one write and in bursts.
type C09StdinCase struct {
	World   procsim.World `json:"world"`
	Cwd     string        `json:"cwd"`
	Ext     string        `json:"ext"`
	Content string        `json:"stdin"`
	Bursts  [][]int       `json:"bursts"` // one entry per run; nil = a single write
}

func runC09Stdin(e *Env, c *C09StdinCase, tag string, run int64) (*c09Obs, error) {
	var obs *c09Obs
	err := withWorld(e, tag, run, &c.World, func(root string) error {
		var first *procsim.Outcome
		for k, bursts := range c.Bursts {
			inv := procsim.Invocation{Kind: "stock", Args: []string{"-f", "json", "--", "-." + c.Ext}, Cwd: c.Cwd, Stdin: c.Content,
				StdinBursts: bursts, Env: map[string]string{"VERIF_A": "va", "VERIF_B": "3"}}
			out, err := runInv(e, root, "bkl", &inv)
			if err != nil {
				return err
			}
			if out.Crash != "" || out.CPUOut || out.Blocked || out.Signal != "" {
				return nil
			}
			if first == nil {
				first = out
				continue
			}
			if (first.Status == 0) != (out.Status == 0) || first.Stdout != out.Stdout {
				obs = &c09Obs{Clause: "result-depends-on-how-stdin-is-delivered", Op: k,
					Got:  short(fmt.Sprintf("bursts %v: status %d stdout %s", bursts, out.Status, out.Stdout), 600),
					Want: short(fmt.Sprintf("single write: status %d stdout %s", first.Status, first.Stdout), 600)}
				return nil
			}
		}
		return nil
	})
	return obs, err
}

// genC09Stdin feeds one of the world's layers on stdin (as "-.<ext>").
func genC09Stdin(c *C09ProcCase, r *gen.Rand) *C09StdinCase {
	if len(c.World.Files) == 0 {
		return nil
	}
	f := c.World.Files[r.Intn(len(c.World.Files))]
	content, ok := f.Bytes()
	if !ok {
		return nil
	}
	ext := procsim.Ext(f.Path)
	if (ext == "yaml" || ext == "yml" || ext == "toml") && r.Chance(0.4) {
		content += "# " + strings.Repeat("pad ", r.Range(100, 40000)) + "\n"
	}
	n := len(content)
	sc := &C09StdinCase{World: c.World, Cwd: c.Inv.Cwd, Ext: ext, Content: content, Bursts: [][]int{nil}}
	for k := 0; k < 2; k++ {
		sc.Bursts = append(sc.Bursts, []int{r.Range(1, 1+n/2), r.Range(1, 1+n/3)})
	}
	return sc
}

// runC09Proc is sub-check 4: the stock CLI, several fresh processes per
// world, real runtime map order, GOMAXPROCS 1 and 16.
func runC09Proc(e *Env) (int, error) {
	ev := e.Ev
	n := e.N(250, 5000) / 10
	if n < 4 {
		n = 4
	}
	if os.Getenv("VERIF_RUNS") == "" {
		n = int64(e.Pick(250, 5000))
	}
	fn := func(run int64) harness.RunResult {
		r := gen.New(e.Seed, "C09-proc", run)
		g := genC08(r)
		// fault-free variant of the C08 world: plain files, pipe as sink
		c := &C09ProcCase{World: g.World, Tool: g.Tool, Inv: g.Inv, Runs: []string{"1", "16", "1", "16", "4", "16"}}
		if run%12 == 5 {
			// a layer name near NAME_MAX (fits with its own extension, not with
			// a longer one): which extension is probed first is up to the runtime
			name := strings.Repeat(r.Pick("N", "m"), r.Range(243, 249)) + "." + r.Pick("yaml", "json", "yml")
			doc := map[string]any{"long": true, "n": r.Intn(5)}
			c = &C09ProcCase{Tool: "bkl", Runs: []string{"1", "16", "1", "16", "4", "16", "1", "16", "2", "8"}}
			c.World.Dirs = []string{c08Dir}
			c.World.Files = []procsim.File{{Path: c08Dir + "/" + name, Docs: treeDocs(doc)}}
			c.Inv = procsim.Invocation{Kind: "stock", Args: []string{"-f", "json", name}, Cwd: c08Dir}
			g = &C08Case{}
		}
		if run%12 == 7 {
			// one layer inheriting from a directory's worth of parents (list or
			// wildcard), one of which may be unreadable: which load finishes,
			// fails or is reported first must not depend on the run
			n := gen.PickAny(r, []int{8, 9, 12, 20, 33})
			c = &C09ProcCase{Tool: "bkl", Runs: []string{"1", "16", "4", "16", "2", "16", "1", "16", "8", "16"}}
			c.World.Dirs = []string{c08Dir, c08Dir + "/conf.d"}
			broken := -1
			if r.Chance(0.6) {
				broken = r.Intn(n)
			}
			var names []any
			for k := 0; k < n; k++ {
				nm := fmt.Sprintf("p%02d", k)
				names = append(names, "conf.d/"+nm)
				if k == broken {
					raw := r.Pick("a: [1, 2\n", "{\"a\": ", "\x00\xff", "a: 1\n  b: 2\n")
					c.World.Files = append(c.World.Files, procsim.File{Path: c08Dir + "/conf.d/" + nm + ".yaml", Raw: &raw})
					continue
				}
				c.World.Files = append(c.World.Files, procsim.File{Path: c08Dir + "/conf.d/" + nm + ".yaml", Docs: treeDocs(map[string]any{"name": nm, "l": []any{k}})})
			}
			var parent any = "conf.d/*"
			if r.Chance(0.4) {
				parent = names
			}
			c.World.Files = append(c.World.Files, procsim.File{Path: c08Dir + "/all.yaml", Docs: treeDocs(map[string]any{"$parent": parent, "all": true})})
			c.Inv = procsim.Invocation{Kind: "stock", Args: []string{"-f", "json", "all.yaml"}, Cwd: c08Dir}
			g = &C08Case{}
		}
		if run%12 == 9 {
			// a layer written in another encoding (byte-order mark, UTF-16 /
			// UTF-32): whether it is accepted or rejected must not depend on the run
			doc := map[string]any{"enc": true, "n": r.Intn(5), "s": "text"}
			ext := r.Pick("yaml", "json", "yaml")
			text, _ := gen.StreamText(ext, []any{doc})
			var raw string
			for k := 0; k < 12; k++ {
				m, kind := mutateBytes(r, text)
				if strings.HasPrefix(kind, "encoding:") {
					raw = m
					break
				}
			}
			if raw != "" {
				c = &C09ProcCase{Tool: "bkl", Runs: []string{"1", "16", "1", "16", "4", "16", "1", "16", "2", "8"}}
				c.World.Dirs = []string{c08Dir}
				c.World.Files = []procsim.File{{Path: c08Dir + "/enc." + ext, Raw: &raw}}
				c.Inv = procsim.Invocation{Kind: "stock", Args: []string{"-f", "json", "enc." + ext}, Cwd: c08Dir}
				g = &C08Case{}
			}
		}
		c.Inv.Injects, c.Inv.StdoutTo, c.Inv.Sched = nil, "", nil
		if g.OutFile != "" || strings.Contains(strings.Join(g.Faults, " "), "symlink") {
			return harness.RunResult{}
		}
		obs, skipped, err := judgeC09Proc(e, c, "proc", run)
		if err != nil {
			return harness.RunResult{Err: err}
		}
		if skipped {
			ev.Count("skipped_resource_exhaustion", 1)
			return harness.RunResult{}
		}
		// the same bytes on stdin, delivered in one write and in bursts
		if obs == nil && c.Tool == "bkl" && run%3 == 0 {
			if sc := genC09Stdin(c, r); sc != nil {
				o2, err := runC09Stdin(e, sc, "stdin", run)
				if err != nil {
					return harness.RunResult{Err: err}
				}
				ev.Count("stdin_burst_comparisons", 1)
				if o2 != nil {
					return harness.RunResult{Violation: &harness.Violation{Property: "C09", Check: "stdin", Clause: o2.Clause, Seed: e.Seed, Run: run, Case: sc, Observed: o2}}
				}
			}
		}
		ev.Eval("")
		ev.Count("fresh_process_worlds", 1)
		ev.Count("fresh_process_runs", int64(len(c.Runs)))
		if obs == nil {
			return harness.RunResult{}
		}
		return harness.RunResult{Violation: &harness.Violation{Property: "C09", Check: "processes", Clause: obs.Clause, Seed: e.Seed, Run: run, Case: c, Observed: obs}}
	}
	return e.Drive(n, fn, nil)
}

func init() {
	replayers["C09/stdin"] = func(e *Env, raw []byte) (string, any, error) {
		var v struct {
			Clause string       `json:"clause"`
			Run    int64        `json:"run"`
			Case   C09StdinCase `json:"case"`
		}
		if err := json.Unmarshal(raw, &v); err != nil {
			return "", nil, err
		}
		o, err := runC09Stdin(e, &v.Case, "replay", v.Run)
		if err != nil || o == nil || o.Clause != v.Clause {
			return "", o, err
		}
		return o.Clause, o, nil
	}
	replayers["C09/processes"] = func(e *Env, raw []byte) (string, any, error) {
		var v struct {
			Clause string      `json:"clause"`
			Run    int64       `json:"run"`
			Case   C09ProcCase `json:"case"`
		}
		if err := json.Unmarshal(raw, &v); err != nil {
			return "", nil, err
		}
		// the runtime picks the order: repeat a few times
		for k := 0; k < 10; k++ {
			o, _, err := judgeC09Proc(e, &v.Case, "replay", v.Run+int64(k))
			if err != nil {
				return "", nil, err
			}
			if o != nil && o.Clause == v.Clause {
				return o.Clause, o, nil
			}
		}
		return "", nil, nil
	}
}
