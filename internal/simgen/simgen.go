// Package simgen weaves the simulation seam into a scratch copy of
// gopatchy/bkl: every `range` over a map and every maps.Keys/Values/All call
// goes through simrt (seeded order), every function starts with simrt.Yield
// (step counter + task hand-off point), and in main packages os.Exit is routed
// through simrt.Exit so that probes can be flushed.
package simgen

import (
	"bytes"
	"encoding/json"
	"fmt"
	"go/ast"
	"go/format"
	"go/token"
	"go/types"
	"os"
	"path/filepath"
	"sort"
	"strconv"
	"strings"

	"golang.org/x/tools/go/ast/astutil"
	"golang.org/x/tools/go/packages"
)

// Site describes one instrumentation site.
type Site struct {
	ID   int    `json:"id"`
	Kind string `json:"kind"` // range | keys | values | all | yield | exit
	Pos  string `json:"pos"`  // file:line relative to the tree
	Func string `json:"func,omitempty"`
}

// Result is what Instrument reports.
type Result struct {
	Sites      []Site `json:"sites"`
	RangeSites int    `json:"range_sites"`
	YieldSites int    `json:"yield_sites"`
	Files      int    `json:"files"`
	// Concurrent lists the packages that start goroutines or import package
	// sync / x/sync: they switch simrt to its concurrent mode (no cooperative
	// hand-overs, atomic counters)
	Concurrent []string `json:"concurrent_packages,omitempty"`
}

const rtName = "verifsimrt"
const rtPath = "simrt"

// Instrument rewrites the Go module rooted at dir in place. simrtDir is the
// absolute path of the simrt module (a replace directive is added to go.mod).
func Instrument(dir, simrtDir string) (*Result, error) {
	cfg := &packages.Config{
		Mode: packages.NeedName | packages.NeedSyntax | packages.NeedTypes | packages.NeedTypesInfo | packages.NeedFiles | packages.NeedCompiledGoFiles,
		Dir:  dir,
		Env:  append(os.Environ(), "GOFLAGS=-mod=mod", "GOPROXY=off"),
	}
	pkgs, err := packages.Load(cfg, "./...")
	if err != nil {
		return nil, err
	}
	sort.Slice(pkgs, func(i, j int) bool { return pkgs[i].PkgPath < pkgs[j].PkgPath })
	res := &Result{}
	next := 1
	for _, p := range pkgs {
		if len(p.Errors) > 0 {
			return nil, fmt.Errorf("simgen: %s: %v", p.PkgPath, p.Errors[0])
		}
		conc := false
		for i, f := range p.Syntax {
			if rel, _ := filepath.Rel(dir, p.CompiledGoFiles[i]); strings.HasPrefix(rel, "..") {
				continue
			}
			for _, im := range f.Imports {
				ip, _ := strconv.Unquote(im.Path.Value)
				if ip == "sync" || strings.HasPrefix(ip, "golang.org/x/sync/") {
					conc = true
				}
			}
			ast.Inspect(f, func(n ast.Node) bool {
				if _, ok := n.(*ast.GoStmt); ok {
					conc = true
				}
				return true
			})
		}
		if conc {
			res.Concurrent = append(res.Concurrent, p.PkgPath)
		}
		for i, f := range p.Syntax {
			fname := p.CompiledGoFiles[i]
			rel, _ := filepath.Rel(dir, fname)
			if strings.HasPrefix(rel, "..") {
				continue
			}
			changed := false
			usedMaps := map[string]bool{} // import paths whose every use may have been removed
			site := func(kind string, pos token.Pos, fn string) int {
				id := next
				next++
				res.Sites = append(res.Sites, Site{ID: id, Kind: kind, Pos: fmt.Sprintf("%s:%d", rel, p.Fset.Position(pos).Line), Func: fn})
				return id
			}
			rtCall := func(fn string, id int, args ...ast.Expr) *ast.CallExpr {
				return &ast.CallExpr{
					Fun:  &ast.SelectorExpr{X: ast.NewIdent(rtName), Sel: ast.NewIdent(fn)},
					Args: append([]ast.Expr{&ast.BasicLit{Kind: token.INT, Value: strconv.Itoa(id)}}, args...),
				}
			}
			isMain := p.Name == "main"
			astutil.Apply(f, func(c *astutil.Cursor) bool {
				switch n := c.Node().(type) {
				case *ast.RangeStmt:
					t := p.TypesInfo.TypeOf(n.X)
					if t == nil {
						return true
					}
					if _, ok := t.Underlying().(*types.Map); ok {
						id := site("range", n.Pos(), "")
						n.X = rtCall("Range", id, n.X)
						res.RangeSites++
						changed = true
					}
				case *ast.CallExpr:
					sel, ok := n.Fun.(*ast.SelectorExpr)
					if !ok {
						return true
					}
					x, ok := sel.X.(*ast.Ident)
					if !ok {
						return true
					}
					pn, ok := p.TypesInfo.Uses[x].(*types.PkgName)
					if !ok {
						return true
					}
					ipath := pn.Imported().Path()
					switch ipath {
					case "maps":
						m := map[string]string{"Keys": "Keys", "Values": "Values", "All": "All"}
						if to, ok := m[sel.Sel.Name]; ok && len(n.Args) == 1 {
							id := site(strings.ToLower(to), n.Pos(), "")
							n.Fun = &ast.SelectorExpr{X: ast.NewIdent(rtName), Sel: ast.NewIdent(to)}
							n.Args = append([]ast.Expr{&ast.BasicLit{Kind: token.INT, Value: strconv.Itoa(id)}}, n.Args...)
							usedMaps[pn.Name()+"\x00"+ipath] = true
							res.RangeSites++
							changed = true
						}
					case "golang.org/x/exp/maps":
						m := map[string]string{"Keys": "KeysSlice", "Values": "ValuesSlice"}
						if to, ok := m[sel.Sel.Name]; ok && len(n.Args) == 1 {
							id := site(strings.ToLower(sel.Sel.Name), n.Pos(), "")
							n.Fun = &ast.SelectorExpr{X: ast.NewIdent(rtName), Sel: ast.NewIdent(to)}
							n.Args = append([]ast.Expr{&ast.BasicLit{Kind: token.INT, Value: strconv.Itoa(id)}}, n.Args...)
							usedMaps[pn.Name()+"\x00"+ipath] = true
							res.RangeSites++
							changed = true
						}
					case "os":
						if isMain && sel.Sel.Name == "Exit" && len(n.Args) == 1 {
							site("exit", n.Pos(), "")
							n.Fun = &ast.SelectorExpr{X: ast.NewIdent(rtName), Sel: ast.NewIdent("Exit")}
							changed = true
						}
					}
				}
				return true
			}, nil)
			for _, d := range f.Decls {
				fd, ok := d.(*ast.FuncDecl)
				if !ok || fd.Body == nil {
					continue
				}
				name := fd.Name.Name
				if fd.Recv != nil && len(fd.Recv.List) > 0 {
					name = types.ExprString(fd.Recv.List[0].Type) + "." + name
				}
				id := site("yield", fd.Pos(), name)
				stmts := []ast.Stmt{&ast.ExprStmt{X: rtCall("Yield", id)}}
				if isMain && fd.Name.Name == "main" && fd.Recv == nil {
					stmts = append(stmts, &ast.DeferStmt{Call: &ast.CallExpr{
						Fun: &ast.SelectorExpr{X: ast.NewIdent(rtName), Sel: ast.NewIdent("Flush")},
					}})
				}
				fd.Body.List = append(stmts, fd.Body.List...)
				res.YieldSites++
				changed = true
			}
			if conc {
				// func init() { verifsimrt.MarkConcurrent() }
				f.Decls = append(f.Decls, &ast.FuncDecl{
					Name: ast.NewIdent("init"),
					Type: &ast.FuncType{Params: &ast.FieldList{}},
					Body: &ast.BlockStmt{List: []ast.Stmt{&ast.ExprStmt{X: &ast.CallExpr{
						Fun: &ast.SelectorExpr{X: ast.NewIdent(rtName), Sel: ast.NewIdent("MarkConcurrent")},
					}}}},
				})
				conc = false
				changed = true
			}
			if !changed {
				continue
			}
			astutil.AddNamedImport(p.Fset, f, rtName, rtPath)
			// keep imports whose uses we may have removed alive
			for key := range usedMaps {
				parts := strings.SplitN(key, "\x00", 2)
				if !astutil.UsesImport(f, parts[1]) {
					astutil.DeleteNamedImport(p.Fset, f, importName(f, parts[1]), parts[1])
				}
			}
			var buf bytes.Buffer
			if err := format.Node(&buf, p.Fset, f); err != nil {
				return nil, fmt.Errorf("simgen: print %s: %w", rel, err)
			}
			if err := os.WriteFile(fname, buf.Bytes(), 0o644); err != nil {
				return nil, err
			}
			res.Files++
		}
	}
	// go.mod: require + replace simrt
	modPath := filepath.Join(dir, "go.mod")
	mod, err := os.ReadFile(modPath)
	if err != nil {
		return nil, err
	}
	mod = append(mod, []byte(fmt.Sprintf("\nrequire %s v0.0.0\n\nreplace %s => %s\n", rtPath, rtPath, simrtDir))...)
	if err := os.WriteFile(modPath, mod, 0o644); err != nil {
		return nil, err
	}
	js, _ := json.MarshalIndent(res, "", " ")
	_ = os.WriteFile(filepath.Join(dir, "verif_sites.json"), js, 0o644)
	return res, nil
}

func importName(f *ast.File, path string) string {
	for _, s := range f.Imports {
		if p, _ := strconv.Unquote(s.Path.Value); p == path {
			if s.Name != nil {
				return s.Name.Name
			}
		}
	}
	return ""
}
