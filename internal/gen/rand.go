// Package gen holds the seeded generators. Every choice comes from one Rand
// derived from (VERIF_SEED, check name, run index); nothing here ranges over a
// map to make a decision.
package gen

import (
	"hash/fnv"
	"sort"
)

// Rand is a small splitmix64/xorshift PRNG. One integer decides a run.
type Rand struct{ s uint64 }

// New derives the stream for one run of one check.
func New(seed int64, check string, run int64) *Rand {
	h := fnv.New64a()
	h.Write([]byte(check))
	s := uint64(seed)*0x9E3779B97F4A7C15 ^ h.Sum64() ^ (uint64(run)+1)*0xD1342543DE82EF95
	r := &Rand{s: s}
	r.U64()
	r.U64()
	return r
}

// Fork derives an independent stream.
func (r *Rand) Fork() *Rand { return &Rand{s: r.U64() ^ 0xA5A5A5A55A5A5A5A} }

func (r *Rand) U64() uint64 {
	r.s += 0x9E3779B97F4A7C15
	z := r.s
	z = (z ^ (z >> 30)) * 0xBF58476D1CE4E5B9
	z = (z ^ (z >> 27)) * 0x94D049BB133111EB
	return z ^ (z >> 31)
}

// Intn returns a value in [0,n). n <= 0 yields 0.
func (r *Rand) Intn(n int) int {
	if n <= 0 {
		return 0
	}
	return int(r.U64() % uint64(n))
}

// Range returns a value in [lo,hi].
func (r *Rand) Range(lo, hi int) int {
	if hi <= lo {
		return lo
	}
	return lo + r.Intn(hi-lo+1)
}

func (r *Rand) Float() float64 { return float64(r.U64()>>11) / float64(uint64(1)<<53) }

// Chance is true with probability p.
func (r *Rand) Chance(p float64) bool { return r.Float() < p }

// Pick returns one of the strings.
func (r *Rand) Pick(xs ...string) string { return xs[r.Intn(len(xs))] }

// PickAny returns one of the values.
func PickAny[T any](r *Rand, xs []T) T { return xs[r.Intn(len(xs))] }

// Shuffle permutes xs in place.
func Shuffle[T any](r *Rand, xs []T) {
	for i := len(xs) - 1; i > 0; i-- {
		j := r.Intn(i + 1)
		xs[i], xs[j] = xs[j], xs[i]
	}
}

// SortedKeys returns the keys of a map in ascending order.
func SortedKeys[V any](m map[string]V) []string {
	ks := make([]string, 0, len(m))
	for k := range m {
		ks = append(ks, k)
	}
	sort.Strings(ks)
	return ks
}
