package gen

import (
	"strconv"
	"strings"
)

// Step is one step of a position inside a tree: a map key or a list index.
type Step struct {
	Key   string
	Index int
	IsKey bool
}

// Pos is a position inside a tree.
type Pos []Step

func (p Pos) With(s Step) Pos { return append(append(Pos{}, p...), s) }

func (p Pos) String() string {
	s := ""
	for _, st := range p {
		if st.IsKey {
			s += "." + st.Key
		} else {
			s += "[" + strconv.Itoa(st.Index) + "]"
		}
	}
	return s
}

// KeysOnly reports whether the position goes through map keys only and, if
// so, returns the keys.
func (p Pos) KeysOnly() ([]string, bool) {
	ks := []string{}
	for _, st := range p {
		if !st.IsKey {
			return nil, false
		}
		ks = append(ks, st.Key)
	}
	return ks, true
}

// Get returns the value at a position.
func Get(t any, p Pos) (any, bool) {
	for _, st := range p {
		if st.IsKey {
			m, ok := t.(map[string]any)
			if !ok {
				return nil, false
			}
			t, ok = m[st.Key]
			if !ok {
				return nil, false
			}
		} else {
			l, ok := t.([]any)
			if !ok || st.Index < 0 || st.Index >= len(l) {
				return nil, false
			}
			t = l[st.Index]
		}
	}
	return t, true
}

// Set replaces the value at a position and returns the (possibly new) root.
func Set(t any, p Pos, v any) any {
	if len(p) == 0 {
		return v
	}
	parent, ok := Get(t, p[:len(p)-1])
	if !ok {
		return t
	}
	last := p[len(p)-1]
	if last.IsKey {
		if m, ok := parent.(map[string]any); ok {
			m[last.Key] = v
		}
	} else if l, ok := parent.([]any); ok && last.Index >= 0 && last.Index < len(l) {
		l[last.Index] = v
	}
	return t
}

// Positions lists every position of the tree (root first, keys sorted).
func Positions(t any) []Pos {
	var out []Pos
	var walk func(v any, p Pos)
	walk = func(v any, p Pos) {
		out = append(out, p)
		switch x := v.(type) {
		case map[string]any:
			for _, k := range SortedKeys(x) {
				walk(x[k], p.With(Step{Key: k, IsKey: true}))
			}
		case []any:
			for i, e := range x {
				walk(e, p.With(Step{Index: i}))
			}
		}
	}
	walk(t, Pos{})
	return out
}

// MapPositions lists positions whose value is a map.
func MapPositions(t any) []Pos {
	var out []Pos
	for _, p := range Positions(t) {
		if v, _ := Get(t, p); v != nil {
			if _, ok := v.(map[string]any); ok {
				out = append(out, p)
			}
		}
	}
	return out
}

// ListPositions lists positions whose value is a list.
func ListPositions(t any) []Pos {
	var out []Pos
	for _, p := range Positions(t) {
		if v, _ := Get(t, p); v != nil {
			if _, ok := v.([]any); ok {
				out = append(out, p)
			}
		}
	}
	return out
}

// IsPrefix reports whether a is a prefix of b.
func IsPrefix(a, b Pos) bool {
	if len(a) > len(b) {
		return false
	}
	for i := range a {
		if a[i] != b[i] {
			return false
		}
	}
	return true
}

// TreeCfg bounds the plain-tree generator.
type TreeCfg struct {
	MaxDepth int
	MaxWidth int
	Keys     []string
	// Strs is the pool of string scalars.
	Strs []string
	// PList is the chance that a container is a list.
	PList float64
	// Safe restricts scalars to values every format decodes to the same Go
	// value (small ints, float32-exact floats).
	Safe bool
	// WideP is the chance that a map gets 9..12 keys (Go switches map
	// representation above 8 entries).
	WideP float64
	// BigP is the chance that a root map also gets bulk: a string of several
	// kilobytes (files larger than one read buffer), a long list, a map with
	// dozens of keys, a deep chain — size thresholds are a classic blind spot.
	BigP float64
	// OddKeyP is the chance that a map key is an unusual but legal one
	// (empty, with dots / spaces / unicode, token look-alikes, very long).
	OddKeyP float64
}

var OddKeys = []string{"", "a.b", "has space", "é", "0", "true", "null", "a:b", "- x", "k#", "$$", "日本", "a.b.c.d", "x\ty", "tmp\\", "C:\\", "a\\b", "q\"uote", "per%cent", "{curly}",
	"long-" + string(make([]byte, 0)) + "kkkkkkkkkkkkkkkkkkkkkkkkkkkkkkkkkkkkkkkkkkkkkkkkkkkkkkkkkkkkkkkkkkkkkkkkkkkkkkkkkkkkkkkkkkkkkkkkkkkkkkkkkkkkkkkkkkkkkkkkkkkkkkkkkkkkkkkkkkkkkkkkkkkkkkkkkkkkkkkkkkkkkkkkkkkkkkkkkkkkkkkkkkkkkkkkkkkkkkkkkkkkkkkkkkkkkkkkkkkkkkkkkkkkkkkkkkkkkkkkkkkkkkkkkkkkkkkkkkkkkkkk"}

// KeyFamilies are sets of distinct keys that a looser comparison than string
// equality takes for equal (numeric value, case, Unicode normalisation,
// surrounding blanks, values beyond 64 bits): all members go into one map.
var KeyFamilies = [][]string{
	{"1", "01", "001"},
	{"k7", "k07", "k007"},
	{"9", "10", "010"},
	{"18446744073709551616", "18446744073709551617"},
	{"n99999999999999999999", "n99999999999999999998"},
	{"Key", "key", "KEY"},
	{"\u00e9", "e\u0301"},
	{"b", "b ", " b"},
	{"1.0", "1", "1e0"},
	{"x-1", "x_1", "x1"},
	{"dir\\", "dir/", "dir"},
	// long names that differ in their tails only (what real configuration
	// keys look like), of almost the same length
	{"deploymentStrategyDefaults", "deploymentStrategyOverride", "deploymentStrategySettings", "deploymentStrategyFallback"},
	{"service_account_name", "service_account_role", "service_account_uuid", "service_accounts_max"},
}

// Bulk adds large members to a root map.
func (c TreeCfg) Bulk(r *Rand, m map[string]any) {
	switch r.Intn(4) {
	case 0:
		n := PickAny(r, []int{600, 4096, 4097, 5000, 9000, 70000})
		b := make([]byte, n)
		for i := range b {
			b[i] = "abcdefghij klmnopqrstuvwxyz"[(i*7+n)%27]
		}
		m["pad"] = string(b)
	case 1:
		n := PickAny(r, []int{33, 64, 65, 200})
		l := make([]any, n)
		for i := range l {
			l[i] = i % 7
		}
		m["longlist"] = l
	case 2:
		n := PickAny(r, []int{17, 40, 70})
		w := map[string]any{}
		for i := 0; i < n; i++ {
			w["k"+string(rune('a'+i%26))+string(rune('a'+i/26))] = i
		}
		m["widemap"] = w
	default:
		var v any = "leaf"
		for i := 0; i < PickAny(r, []int{12, 30, 60}); i++ {
			v = map[string]any{"d": v}
		}
		m["deep"] = v
	}
}

var DefaultKeys = []string{"a", "b", "c", "d", "e", "f"}
var WideKeys = []string{"a", "b", "c", "d", "e", "f", "g", "h", "i", "j", "k", "l", "m"}
var PlainStrs = []string{"x", "y", "hello", "v1", "prod", "has space", "é", "1", "true", "null", "a.b", "", "0x10", "- x", "k: v", "#c"}
var LongNonASCII = []string{
	strings.Repeat("設定値テキスト", 20),       // 140 characters, 420 bytes
	strings.Repeat("Привет, мир! ", 15), // 195 characters, ~330 bytes
	strings.Repeat("é", 200),            // 200 characters, 400 bytes
	strings.Repeat("日本", 45) + "x",      // 91 characters, 271 bytes
}
var DollarStrs = []string{"$$", "$$x", "a$$b", "$$merge:a", "$FOO", "${X}", "$(cmd)", "cost: $$5"}

func DefaultTreeCfg() TreeCfg {
	return TreeCfg{MaxDepth: 3, MaxWidth: 4, Keys: DefaultKeys, Strs: PlainStrs, PList: 0.3, WideP: 0.05}
}

// Scalar draws a scalar value.
func (c TreeCfg) Scalar(r *Rand) any {
	switch r.Intn(10) {
	case 0, 1, 2:
		if c.Safe {
			return PickAny(r, []any{0, 1, 2, 3, -1, 7, 42})
		}
		return PickAny(r, []any{0, 1, 2, 3, -1, 7, 42, 2147483648, 9007199254740993})
	case 3:
		if c.Safe {
			return PickAny(r, []any{1.5, 0.25, -2.25})
		}
		return PickAny(r, []any{1.5, 0.25, -2.25, 1e21, 3.0})
	case 4:
		return r.Chance(0.5)
	default:
		return PickAny(r, c.Strs)
	}
}

// Tree draws a plain tree of at most the given depth.
func (c TreeCfg) Tree(r *Rand, depth int) any {
	if depth <= 0 || r.Chance(0.25) {
		return c.Scalar(r)
	}
	if r.Chance(0.06) {
		// empty containers are containers too
		if r.Chance(0.5) {
			return map[string]any{}
		}
		return []any{}
	}
	if r.Chance(c.PList) {
		n := r.Range(0, c.MaxWidth)
		l := make([]any, 0, n)
		for i := 0; i < n; i++ {
			l = append(l, c.Tree(r, depth-1))
		}
		return l
	}
	return c.Map(r, depth)
}

// Map draws a map-rooted tree.
func (c TreeCfg) Map(r *Rand, depth int) map[string]any {
	n := r.Range(1, c.MaxWidth)
	keys := c.Keys
	if r.Chance(c.WideP) {
		n = r.Range(9, 12)
		keys = WideKeys
	}
	m := map[string]any{}
	for i := 0; i < n; i++ {
		k := PickAny(r, keys)
		if c.OddKeyP > 0 && r.Chance(c.OddKeyP) {
			k = PickAny(r, OddKeys)
		}
		m[k] = c.Tree(r, depth-1)
	}
	if c.OddKeyP > 0 && r.Chance(c.OddKeyP) {
		for _, k := range PickAny(r, KeyFamilies) {
			m[k] = c.Tree(r, depth-1)
		}
	}
	if depth == c.MaxDepth && c.BigP > 0 && r.Chance(c.BigP) {
		c.Bulk(r, m)
	}
	return m
}

// Simpler lists smaller variants of a tree, most aggressive first: the
// subtree at some position removed, or replaced by a scalar.
func Simpler(t any) []any {
	var out []any
	ps := Positions(t)
	for _, p := range ps {
		if len(p) == 0 {
			continue
		}
		out = append(out, removeAt(t, p))
	}
	for _, p := range ps {
		v, _ := Get(t, p)
		switch x := v.(type) {
		case map[string]any:
			if len(x) > 0 {
				out = append(out, setCopy(t, p, map[string]any{}))
			}
		case []any:
			if len(x) > 0 {
				out = append(out, setCopy(t, p, []any{}))
			}
		}
	}
	return out
}

func cloneTree(v any) any {
	switch x := v.(type) {
	case map[string]any:
		m := make(map[string]any, len(x))
		for k, e := range x {
			m[k] = cloneTree(e)
		}
		return m
	case []any:
		l := make([]any, len(x))
		for i, e := range x {
			l[i] = cloneTree(e)
		}
		return l
	}
	return v
}

func setCopy(t any, p Pos, v any) any {
	c := cloneTree(t)
	return Set(c, p, v)
}

func removeAt(t any, p Pos) any {
	c := cloneTree(t)
	parent, ok := Get(c, p[:len(p)-1])
	if !ok {
		return c
	}
	last := p[len(p)-1]
	if last.IsKey {
		if m, ok := parent.(map[string]any); ok {
			delete(m, last.Key)
		}
		return c
	}
	if l, ok := parent.([]any); ok && last.Index < len(l) {
		nl := append(append([]any{}, l[:last.Index]...), l[last.Index+1:]...)
		return Set(c, p[:len(p)-1], nl)
	}
	return c
}
