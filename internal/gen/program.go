package gen

import (
	"encoding/json"
	"strings"
)

// ProgCfg is the swarm configuration of the program generator: which
// directive kinds may be planted into a plain tree, and how often a planted
// directive is malformed or self-referential.
type ProgCfg struct {
	Tree      TreeCfg
	Merge     bool
	Replace   bool
	StrRef    bool
	Repeat    bool
	DocRepeat bool
	Output    bool
	Encode    bool
	Decode    bool
	Interp    bool
	Env       bool
	Escape    bool
	Required  bool
	Plants    int
	PBad      float64 // chance that a plant is malformed / dangling
	PSelf     float64 // chance that a reference host lies inside its own target
	EnvNames  []string
	ListRoot  float64
}

// SwarmProgCfg draws a configuration: every feature is on in some runs and
// off in others.
func SwarmProgCfg(r *Rand) ProgCfg {
	c := ProgCfg{Tree: DefaultTreeCfg()}
	on := func(p float64) bool { return r.Chance(p) }
	c.Merge, c.Replace, c.StrRef = on(0.6), on(0.5), on(0.4)
	c.Repeat, c.DocRepeat = on(0.4), on(0.3)
	c.Output, c.Encode, c.Decode = on(0.4), on(0.4), on(0.25)
	c.Interp, c.Env, c.Escape, c.Required = on(0.4), on(0.25), on(0.3), on(0.15)
	c.Plants = r.Range(0, 5)
	c.PBad = PickAny(r, []float64{0, 0, 0.05, 0.2})
	c.PSelf = PickAny(r, []float64{0, 0, 0.1, 0.3})
	c.EnvNames = []string{"VERIF_A", "VERIF_B"}
	c.ListRoot = 0.05
	c.Tree.MaxDepth = r.Range(2, 4)
	c.Tree.MaxWidth = r.Range(2, 5)
	c.Tree.WideP = PickAny(r, []float64{0, 0.05, 0.3})
	c.Tree.BigP = PickAny(r, []float64{0, 0, 0.05, 0.2})
	c.Tree.OddKeyP = PickAny(r, []float64{0, 0, 0.05, 0.15})
	if r.Chance(0.3) {
		c.Tree.Strs = append(append([]string{}, PlainStrs...), DollarStrs...)
	}
	if r.Chance(0.15) {
		// medium-long values in scripts whose characters take several bytes:
		// byte length and character count differ by a factor of two or three
		c.Tree.Strs = append(append([]string{}, c.Tree.Strs...), LongNonASCII...)
	}
	return c
}

// AllOn is the configuration with every feature enabled (used by checks that
// need directive-rich documents).
func AllOn(r *Rand) ProgCfg {
	c := SwarmProgCfg(r)
	c.Merge, c.Replace, c.StrRef, c.Repeat, c.DocRepeat = true, true, true, true, true
	c.Output, c.Encode, c.Decode, c.Interp, c.Env, c.Escape = true, true, true, true, true, true
	if c.Plants < 2 {
		c.Plants = r.Range(2, 5)
	}
	return c
}

func pathString(keys []string) string { return strings.Join(keys, ".") }

func keyPositions(t any, want func(v any) bool) []Pos {
	var out []Pos
	for _, p := range Positions(t) {
		if len(p) == 0 {
			continue
		}
		ks, ok := p.KeysOnly()
		if !ok {
			continue
		}
		bad := false
		for _, k := range ks {
			if strings.ContainsAny(k, ".$ ") || k == "" {
				bad = true
			}
		}
		if bad {
			continue
		}
		v, _ := Get(t, p)
		if want == nil || want(v) {
			out = append(out, p)
		}
	}
	return out
}

func isMap(v any) bool    { _, ok := v.(map[string]any); return ok }
func isList(v any) bool   { _, ok := v.([]any); return ok }
func isScalar(v any) bool { return !isMap(v) && !isList(v) }

// refForm renders a reference to keys in one of the accepted spellings.
func refForm(r *Rand, keys []string) any {
	switch r.Intn(4) {
	case 0:
		l := make([]any, len(keys))
		for i, k := range keys {
			l[i] = k
		}
		return l
	case 1:
		js, _ := json.Marshal(keys)
		return string(js) // "[\"a\",\"b\"]" parsed as YAML flow list
	default:
		return pathString(keys)
	}
}

// Program draws one document: a plain tree with directives planted into it.
// The returned list names what was planted (for non-triviality rules).
func (c ProgCfg) Program(r *Rand) (any, []string) {
	var doc any
	if r.Chance(c.ListRoot) {
		n := r.Range(1, 3)
		l := []any{}
		for i := 0; i < n; i++ {
			l = append(l, c.Tree.Tree(r, c.Tree.MaxDepth-1))
		}
		doc = l
	} else {
		doc = c.Tree.Map(r, c.Tree.MaxDepth)
	}
	var planted []string
	for i := 0; i < c.Plants; i++ {
		var name string
		doc, name = c.plant(r, doc)
		if name != "" {
			planted = append(planted, name)
		}
	}
	BoundRepeats(doc)
	return doc, planted
}

// BoundRepeats keeps every integer $repeat count (also inside named-count
// maps) within 0..3, so that legitimately large expansions are not mistaken
// for hangs. Negative and non-integer arguments are left alone.
func BoundRepeats(v any) {
	switch x := v.(type) {
	case map[string]any:
		for k, e := range x {
			if k == "$repeat" {
				switch n := e.(type) {
				case int:
					if n > 3 {
						x[k] = n % 4
					}
				case map[string]any:
					// (a zero factor under the name that is expanded first
					// makes the whole product empty at no cost, whatever the
					// other counts are: left alone)
					if ks := SortedKeys(n); len(ks) > 0 {
						if i, ok := n[ks[0]].(int); ok && i <= 0 {
							break
						}
					}
					for k2, e2 := range n {
						if i, ok := e2.(int); ok && i > 3 {
							n[k2] = i % 4
						}
					}
				}
			}
			BoundRepeats(x[k])
		}
	case []any:
		for _, e := range x {
			BoundRepeats(e)
		}
	}
}

// Program2 plants directives into an existing document.
func (c ProgCfg) Program2(r *Rand, doc any) (any, []string) {
	var planted []string
	for i := 0; i < c.Plants; i++ {
		var name string
		doc, name = c.plant(r, doc)
		if name != "" {
			planted = append(planted, name)
		}
	}
	BoundRepeats(doc)
	return doc, planted
}

func (c ProgCfg) plant(r *Rand, doc any) (any, string) {
	type pl struct {
		on bool
		fn func(*Rand, any) (any, string)
	}
	all := []pl{
		{c.Merge, c.plantMerge}, {c.Replace, c.plantReplace}, {c.StrRef, c.plantStrRef},
		{c.Repeat, c.plantRepeat}, {c.DocRepeat, c.plantDocRepeat}, {c.Output, c.plantOutput},
		{c.Encode, c.plantEncode}, {c.Decode, c.plantDecode}, {c.Interp, c.plantInterp},
		{c.Env, c.plantEnv}, {c.Escape, c.plantEscape}, {c.Required, c.plantRequired},
		{c.PBad > 0, c.plantBad},
		{c.PBad > 0, c.plantSoup},
		{(c.Output || c.Encode || c.DocRepeat) && c.Tree.OddKeyP > 0, c.plantKeyOrder},
	}
	var enabled []pl
	for _, p := range all {
		if p.on {
			enabled = append(enabled, p)
		}
	}
	if len(enabled) == 0 {
		return doc, ""
	}
	return enabled[r.Intn(len(enabled))].fn(r, doc)
}

// pickHost picks a host position satisfying want that is (usually) outside
// target.
func (c ProgCfg) pickHost(r *Rand, doc any, target Pos, want func(any) bool) (Pos, bool) {
	var cands, inside []Pos
	for _, p := range Positions(doc) {
		v, _ := Get(doc, p)
		if !want(v) {
			continue
		}
		underDirective := false
		for _, st := range p {
			if st.IsKey && strings.HasPrefix(st.Key, "$") {
				underDirective = true
			}
		}
		if underDirective {
			// never replace (part of) a directive's argument by a reference:
			// a $repeat count reached through a reference escapes the bound on counts
			continue
		}
		if IsPrefix(target, p) {
			inside = append(inside, p)
		} else if !IsPrefix(p, target) || len(p) == 0 {
			// hosts that are ancestors of the target (other than the root)
			// are reference cycles too; the root is the common legitimate
			// "merge a template into the document" shape
			cands = append(cands, p)
		} else {
			inside = append(inside, p)
		}
	}
	if len(inside) > 0 && r.Chance(c.PSelf) {
		return PickAny(r, inside), true
	}
	if len(cands) == 0 {
		return nil, false
	}
	return PickAny(r, cands), true
}

func (c ProgCfg) targetKeys(r *Rand, doc any, want func(any) bool) ([]string, Pos, bool) {
	ts := keyPositions(doc, want)
	if len(ts) == 0 {
		return nil, nil, false
	}
	t := PickAny(r, ts)
	ks, _ := t.KeysOnly()
	if r.Chance(c.PBad) {
		if last := ks[len(ks)-1]; r.Chance(0.5) && len(last) > 0 {
			// a near miss of an existing name (a typo), not an unrelated one
			typo := PickAny(r, []string{last[:len(last)-1], last + "s", last[:len(last)-1] + "X", strings.ToUpper(last[:1]) + last[1:]})
			ks = append(append([]string{}, ks[:len(ks)-1]...), typo)
		} else {
			ks = append(append([]string{}, ks...), "nope")
		}
	}
	return ks, t, true
}

// plantMergeListDirectives appends {$merge: tmpl} to a list whose template
// holds list-level override entries ($match / $delete / $replace) aimed at
// the host list's own elements.
func (c ProgCfg) plantMergeListDirectives(r *Rand, doc any) (any, string) {
	root, ok := doc.(map[string]any)
	if !ok {
		return doc, ""
	}
	var hosts []Pos
	for _, p := range ListPositions(doc) {
		if _, ok := p.KeysOnly(); ok && len(p) > 0 {
			hosts = append(hosts, p)
		}
	}
	var h Pos
	var l []any
	if len(hosts) > 0 && r.Chance(0.6) {
		h = PickAny(r, hosts)
		v, _ := Get(doc, h)
		l = v.([]any)
	} else {
		k := PickAny(r, WideKeys[6:])
		l = []any{map[string]any{"name": "a", "port": 80}, map[string]any{"name": "b", "port": 81}, "plain"}
		root[k] = l
		h = Pos{Step{Key: k, IsKey: true}}
	}
	var tmpl []any
	var maps []map[string]any
	for _, e := range l {
		if m, ok := e.(map[string]any); ok && len(m) > 0 {
			maps = append(maps, m)
		}
	}
	switch {
	case len(maps) > 0 && r.Chance(0.7):
		e := maps[r.Intn(len(maps))]
		pat := map[string]any{}
		for _, k := range SortedKeys(e) {
			if isScalar(e[k]) && e[k] != nil && !strings.HasPrefix(k, "$") {
				pat[k] = e[k]
				break
			}
		}
		if r.Chance(0.75) {
			tmpl = []any{map[string]any{"$match": pat, PickAny(r, WideKeys[6:]): c.Tree.Scalar(r)}}
		} else {
			tmpl = []any{map[string]any{"$delete": pat}}
		}
	case r.Chance(0.5):
		tmpl = []any{"extra", "$replace"}
	default:
		tmpl = []any{c.Tree.Scalar(r), map[string]any{"added": 1}}
	}
	if r.Chance(0.6) {
		tmpl = append(tmpl, map[string]any{"$output": false}) // the template itself is hidden
	}
	tk := "tmpl_" + PickAny(r, DefaultKeys)
	root[tk] = tmpl
	nl := append(append([]any{}, l...), map[string]any{"$merge": tk})
	return Set(doc, h, nl), "merge-list-directives"
}

func (c ProgCfg) plantMerge(r *Rand, doc any) (any, string) {
	if r.Chance(0.2) {
		if d2, name := c.plantMergeListDirectives(r, doc); name != "" {
			return d2, name
		}
	}
	if r.Chance(0.25) { // list host
		ks, t, ok := c.targetKeys(r, doc, isList)
		if !ok {
			return doc, ""
		}
		h, ok := c.pickHost(r, doc, t, isList)
		if !ok {
			return doc, ""
		}
		v, _ := Get(doc, h)
		l := append(append([]any{}, v.([]any)...), map[string]any{"$merge": refForm(r, ks)})
		return Set(doc, h, l), "merge-list"
	}
	ks, t, ok := c.targetKeys(r, doc, isMap)
	if !ok {
		return doc, ""
	}
	h, ok := c.pickHost(r, doc, t, isMap)
	if !ok {
		return doc, ""
	}
	v, _ := Get(doc, h)
	hm := v.(map[string]any)
	hm["$merge"] = refForm(r, ks)
	// local content that overlaps the referenced subtree: the merge then has
	// to descend into the host's own containers (empty ones included)
	if tv, ok := Get(doc, t); ok {
		if tm, ok := tv.(map[string]any); ok && !IsPrefix(t, h) {
			for _, k := range SortedKeys(tm) {
				if strings.HasPrefix(k, "$") || !r.Chance(0.35) {
					continue
				}
				if _, exists := hm[k]; exists {
					continue
				}
				switch tm[k].(type) {
				case map[string]any:
					if r.Chance(0.6) {
						hm[k] = map[string]any{}
					} else {
						hm[k] = map[string]any{PickAny(r, WideKeys[6:]): c.Tree.Scalar(r)}
					}
				case []any:
					if r.Chance(0.6) {
						hm[k] = []any{}
					} else {
						hm[k] = []any{c.Tree.Scalar(r)}
					}
				}
			}
		}
	}
	return doc, "merge-map"
}

func (c ProgCfg) plantReplace(r *Rand, doc any) (any, string) {
	ks, t, ok := c.targetKeys(r, doc, nil)
	if !ok {
		return doc, ""
	}
	if r.Chance(0.25) {
		h, ok := c.pickHost(r, doc, t, isList)
		if ok {
			v, _ := Get(doc, h)
			l := append(append([]any{}, v.([]any)...), map[string]any{"$replace": refForm(r, ks)})
			return Set(doc, h, l), "replace-list"
		}
	}
	h, ok := c.pickHost(r, doc, t, isMap)
	if !ok || len(h) == 0 {
		return doc, ""
	}
	v, _ := Get(doc, h)
	v.(map[string]any)["$replace"] = refForm(r, ks)
	return doc, "replace-map"
}

func (c ProgCfg) plantStrRef(r *Rand, doc any) (any, string) {
	ks, t, ok := c.targetKeys(r, doc, nil)
	if !ok {
		return doc, ""
	}
	h, ok := c.pickHost(r, doc, t, isScalar)
	if !ok || len(h) == 0 {
		return doc, ""
	}
	return Set(doc, h, r.Pick("$merge:", "$replace:")+pathString(ks)), "strref"
}

func (c ProgCfg) repeatCount(r *Rand) any {
	if r.Chance(c.PBad) {
		return PickAny(r, []any{"x", 1.5, true, -1, []any{1}})
	}
	return r.Range(0, 3)
}

func (c ProgCfg) plantRepeat(r *Rand, doc any) (any, string) {
	if r.Chance(0.5) {
		ls := ListPositions(doc)
		if len(ls) == 0 {
			return doc, ""
		}
		h := PickAny(r, ls)
		v, _ := Get(doc, h)
		body := c.Tree.Map(r, 1)
		body["$repeat"] = c.repeatCount(r)
		body["i"] = r.Pick("$repeat", `$"n{$repeat}"`, "lit")
		l := append(append([]any{}, v.([]any)...), body)
		return Set(doc, h, l), "repeat-list"
	}
	ms := MapPositions(doc)
	if len(ms) == 0 {
		return doc, ""
	}
	h := PickAny(r, ms)
	v, _ := Get(doc, h)
	body := c.Tree.Map(r, 1)
	body["$repeat"] = c.repeatCount(r)
	body["i"] = r.Pick("$repeat", `$"n{$repeat}"`, "lit")
	v.(map[string]any)[r.Pick(`$"r{$repeat}"`, `$"r{$repeat}"`, "rk")] = body
	return doc, "repeat-map"
}

func (c ProgCfg) plantDocRepeat(r *Rand, doc any) (any, string) {
	m, ok := doc.(map[string]any)
	if !ok {
		if l, ok := doc.([]any); ok {
			return append(append([]any{}, l...), map[string]any{"$repeat": c.repeatCount(r)}, "$repeat"), "docrepeat-list"
		}
		return doc, ""
	}
	if r.Chance(0.08) {
		// an empty product: a zero factor (expanded first, by name) next to
		// counts that would be far too large on their own
		m["$repeat"] = map[string]any{"a": PickAny(r, []int{0, 0, -1}), "b": PickAny(r, []int{20000, 1000000, 5}), "c": r.Range(1, 3)}
		m[PickAny(r, c.Tree.Keys)] = r.Pick(`$"{$repeat:a}-{$repeat:b}"`, "$repeat:b", `$"{$repeat:c}"`)
		return doc, "docrepeat-zero-factor"
	}
	if r.Chance(0.35) {
		m["$repeat"] = map[string]any{"x": r.Range(1, 2), "y": r.Range(0, 2)}
		m[PickAny(r, c.Tree.Keys)] = r.Pick(`$"{$repeat:x}-{$repeat:y}"`, "$repeat:x", `$"{$repeat:y}"`)
		return doc, "docrepeat-named"
	}
	m["$repeat"] = c.repeatCount(r)
	m[PickAny(r, c.Tree.Keys)] = r.Pick("$repeat", `$"i{$repeat}"`)
	return doc, "docrepeat-int"
}

func (c ProgCfg) plantOutput(r *Rand, doc any) (any, string) {
	val := any(r.Chance(0.65))
	if r.Chance(c.PBad) {
		val = "yes"
	}
	if r.Chance(0.2) {
		ls := ListPositions(doc)
		if len(ls) > 0 {
			h := PickAny(r, ls)
			v, _ := Get(doc, h)
			l := append(append([]any{}, v.([]any)...), map[string]any{"$output": val})
			return Set(doc, h, l), "output-list"
		}
	}
	ms := MapPositions(doc)
	if len(ms) == 0 {
		return doc, ""
	}
	h := PickAny(r, ms)
	v, _ := Get(doc, h)
	v.(map[string]any)["$output"] = val
	return doc, "output-map"
}

// plantKeyOrder puts an order-sensitive consumer (several outputs, values /
// tolist / flags, a named $repeat) over keys that a looser comparison than
// string equality takes for equal: whatever orders them must not tie.
func (c ProgCfg) plantKeyOrder(r *Rand, doc any) (any, string) {
	ms := MapPositions(doc)
	if len(ms) == 0 {
		return doc, ""
	}
	h := PickAny(r, ms)
	v, _ := Get(doc, h)
	m := v.(map[string]any)
	fam := PickAny(r, KeyFamilies)
	switch r.Intn(3) {
	case 0:
		for i, k := range fam {
			m[k] = map[string]any{"$output": true, "n": i}
		}
		return doc, "keyorder-output"
	case 1:
		e := map[string]any{"$encode": r.Pick("values", "tolist:=", "flags", "tolist::")}
		for i, k := range fam {
			if r.Chance(0.5) {
				e[k] = i
			} else {
				e[k] = map[string]any{"n": i}
			}
		}
		m[PickAny(r, c.Tree.Keys)] = e
		return doc, "keyorder-encode"
	default:
		root, ok := doc.(map[string]any)
		if !ok {
			return doc, ""
		}
		rep := map[string]any{}
		tmpl := ""
		for _, k := range fam {
			rep[k] = 2
			tmpl += "{$repeat:" + k + "}"
		}
		root["$repeat"] = rep
		root[PickAny(r, c.Tree.Keys)] = `$"` + tmpl + `"`
		return doc, "keyorder-repeat"
	}
}

func (c ProgCfg) plantEncode(r *Rand, doc any) (any, string) {
	enc := any(r.Pick("base64", "json", "yaml", "json-pretty", "sha256", "values", "values", "tolist:=", "tolist:=", "flags", "flags", "toml"))
	if r.Chance(0.2) {
		enc = []any{"tolist:=", r.Pick("join:,", "prefix:--", "json")}
	}
	if r.Chance(c.PBad) {
		enc = PickAny(r, []any{"nope", 7, "join:a:b", "base64:x", map[string]any{"a": 1}})
	}
	switch r.Intn(3) {
	case 0: // scalar wrapped in $value
		ps := keyPositions(doc, isScalar)
		if len(ps) == 0 {
			return doc, ""
		}
		h := PickAny(r, ps)
		v, _ := Get(doc, h)
		return Set(doc, h, map[string]any{"$encode": r.Pick("base64", "sha256", "json", "yaml"), "$value": v}), "encode-value"
	case 1: // list
		ls := ListPositions(doc)
		if len(ls) == 0 {
			return doc, ""
		}
		h := PickAny(r, ls)
		if len(h) == 0 {
			return doc, ""
		}
		v, _ := Get(doc, h)
		l := append(append([]any{}, v.([]any)...), map[string]any{"$encode": r.Pick("json", "join:,", "flatten", "yaml", "prefix:p-", "join")})
		return Set(doc, h, l), "encode-list"
	default:
		ms := MapPositions(doc)
		var cand []Pos
		for _, p := range ms {
			if len(p) > 0 {
				cand = append(cand, p)
			}
		}
		if len(cand) == 0 {
			return doc, ""
		}
		h := PickAny(r, cand)
		v, _ := Get(doc, h)
		v.(map[string]any)["$encode"] = enc
		return doc, "encode-map"
	}
}

func (c ProgCfg) plantDecode(r *Rand, doc any) (any, string) {
	ps := keyPositions(doc, nil)
	if len(ps) == 0 {
		return doc, ""
	}
	h := PickAny(r, ps)
	small := TreeCfg{MaxDepth: 2, MaxWidth: 3, Keys: c.Tree.Keys, Strs: PlainStrs[:6], PList: 0.3}
	val := small.Map(r, 2)
	js, _ := json.Marshal(val)
	format := r.Pick("json", "yaml", "json")
	text := string(js)
	if r.Chance(c.PBad) {
		text = text[:len(text)/2]
	}
	return Set(doc, h, map[string]any{"$decode": format, "$value": text}), "decode"
}

func (c ProgCfg) plantInterp(r *Rand, doc any) (any, string) {
	ks, t, ok := c.targetKeys(r, doc, isScalar)
	if !ok {
		return doc, ""
	}
	h, ok := c.pickHost(r, doc, t, isScalar)
	if !ok || len(h) == 0 {
		return doc, ""
	}
	s := `$"` + r.Pick("", "pre-", "a b ") + "{" + pathString(ks) + "}" + r.Pick("", "-post", "}")
	// templates with several references (to the same or to another value)
	for extra := r.Intn(3); extra > 0; extra-- {
		ks2 := ks
		if r.Chance(0.5) {
			if k3, _, ok := c.targetKeys(r, doc, isScalar); ok {
				ks2 = k3
			}
		}
		s += r.Pick("-", "/", " ", "") + "{" + pathString(ks2) + "}"
	}
	s += `"`
	return Set(doc, h, s), "interp"
}

func (c ProgCfg) plantEnv(r *Rand, doc any) (any, string) {
	ps := keyPositions(doc, isScalar)
	if len(ps) == 0 {
		return doc, ""
	}
	h := PickAny(r, ps)
	name := PickAny(r, c.EnvNames)
	if r.Chance(c.PBad) {
		name = "VERIF_UNSET"
	}
	if r.Chance(0.5) {
		return Set(doc, h, "$env:"+name), "env"
	}
	return Set(doc, h, `$"e={$env:`+name+`}"`), "env-interp"
}

func (c ProgCfg) plantEscape(r *Rand, doc any) (any, string) {
	if r.Chance(0.4) {
		ms := MapPositions(doc)
		if len(ms) == 0 {
			return doc, ""
		}
		h := PickAny(r, ms)
		v, _ := Get(doc, h)
		m := v.(map[string]any)
		if r.Chance(0.4) {
			// two keys that are equal once unescaped
			pair := [][2]string{{"$$A", "$A"}, {"$$$", "$$$$"}, {"x$$$y", "x$$y"}, {"$$$$B", "$$B"}}[r.Intn(4)]
			m[pair[0]] = c.Tree.Scalar(r)
			m[pair[1]] = differentFrom(r, c.Tree, m[pair[0]])
			return doc, "escape-key-collision"
		}
		m[r.Pick("$$k", "$$merge", "$$$$", "a$$", "$$$", "$A", "$$A")] = c.Tree.Scalar(r)
		return doc, "escape-key"
	}
	ps := keyPositions(doc, isScalar)
	if len(ps) == 0 {
		return doc, ""
	}
	return Set(doc, PickAny(r, ps), PickAny(r, DollarStrs)), "escape-val"
}

func (c ProgCfg) plantRequired(r *Rand, doc any) (any, string) {
	ps := keyPositions(doc, isScalar)
	if len(ps) == 0 {
		return doc, ""
	}
	return Set(doc, PickAny(r, ps), "$required"), "required"
}

func (c ProgCfg) plantBad(r *Rand, doc any) (any, string) {
	ms := MapPositions(doc)
	if len(ms) == 0 {
		return doc, ""
	}
	h := PickAny(r, ms)
	v, _ := Get(doc, h)
	m := v.(map[string]any)
	switch r.Intn(8) {
	case 0:
		m["$merge"] = PickAny(r, []any{5, true, nil, []any{}, []any{1}, map[string]any{"a": 1}})
	case 1:
		m["$unknown"] = 1
	case 2:
		m[PickAny(r, c.Tree.Keys)] = r.Pick("$notadirective", "$delete", "$match", "$value", "$replace")
	case 3:
		m["$replace"] = PickAny(r, []any{5, "no.such", []any{}, false})
	case 4:
		m[PickAny(r, c.Tree.Keys)] = `$"{no.such.path}"`
	case 5:
		m["$merge:"+PickAny(r, c.Tree.Keys)] = 1
	case 6:
		m["$match"] = map[string]any{"a": 1}
	default:
		m["$value"] = c.Tree.Scalar(r)
	}
	return doc, "bad"
}

func differentFrom(r *Rand, c TreeCfg, v any) any {
	for i := 0; i < 8; i++ {
		n := c.Scalar(r)
		if n != v {
			return n
		}
	}
	return "other"
}

var soupKeys = []string{"$repeat", "$env:VERIF_B", "$merge:a", "$replace:b", "$value", "$output", "$match", "$encode", "$decode", "$replace", "$merge",
	"$delete", "$required", "$invert", "$parent", "$path", "$\"{a}\"", "$\"k{$repeat}\"", "$$x", "$"}

// plantSoup puts a directive-shaped key with an arbitrary value (scalar, list
// or a map that itself carries directive keys) at an arbitrary map position:
// misplaced directives and arbitrary argument types at arbitrary positions.
func (c ProgCfg) plantSoup(r *Rand, doc any) (any, string) {
	ms := MapPositions(doc)
	if len(ms) == 0 {
		return doc, ""
	}
	h := PickAny(r, ms)
	v, _ := Get(doc, h)
	val := func(depth int) any { return nil }
	val = func(depth int) any {
		switch r.Intn(6) {
		case 0:
			return r.Range(0, 3)
		case 1:
			return PickAny(r, []any{true, false, nil, "a", "a.b", 1.5, "json", "base64"})
		case 2:
			return []any{c.Tree.Scalar(r), r.Range(0, 2)}
		case 3, 4:
			if depth > 1 {
				return c.Tree.Scalar(r)
			}
			m := map[string]any{PickAny(r, soupKeys): val(depth + 1)}
			if r.Chance(0.5) {
				m[PickAny(r, c.Tree.Keys)] = c.Tree.Scalar(r)
			}
			return m
		default:
			return c.Tree.Scalar(r)
		}
	}
	v.(map[string]any)[PickAny(r, soupKeys)] = val(0)
	return doc, "soup"
}
