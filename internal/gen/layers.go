package gen

import (
	"bytes"
	"encoding/json"
	"math"
	"strconv"
	"strings"

	"wire"
)

// ChildCfg configures how a child layer is derived from its parent.
type ChildCfg struct {
	Tree     TreeCfg
	Edits    int
	PUseless float64 // chance of an override that bkl must reject
	PNewDoc  float64
}

// pattern derives a $match pattern from a tree: a subset of its scalar
// top-level entries (maps) or the value itself (scalars).
func pattern(r *Rand, v any) any {
	switch x := v.(type) {
	case map[string]any:
		pat := map[string]any{}
		for _, k := range SortedKeys(x) {
			if isScalar(x[k]) && x[k] != nil && !strings.HasPrefix(k, "$") && r.Chance(0.6) {
				if s, ok := x[k].(string); ok && strings.HasPrefix(s, "$") {
					continue
				}
				pat[k] = x[k]
			}
		}
		return pat
	default:
		return v
	}
}

// nestAt wraps v in maps along the keys path.
func nestAt(keys []string, v any) map[string]any {
	if len(keys) == 0 {
		if m, ok := v.(map[string]any); ok {
			return m
		}
		return map[string]any{}
	}
	cur := v
	for i := len(keys) - 1; i >= 0; i-- {
		cur = map[string]any{keys[i]: cur}
	}
	return cur.(map[string]any)
}

// mergeInto overlays b onto a (plain structural overlay used to combine
// several edits into one patch; not bkl's merge).
func mergeInto(a, b map[string]any) map[string]any {
	for _, k := range SortedKeys(b) {
		if am, ok := a[k].(map[string]any); ok {
			if bm, ok := b[k].(map[string]any); ok {
				a[k] = mergeInto(am, bm)
				continue
			}
		}
		a[k] = b[k]
	}
	return a
}

func differentScalar(r *Rand, c TreeCfg, v any) any {
	for i := 0; i < 8; i++ {
		n := c.Scalar(r)
		if !wire.Equal(n, v) {
			if s, ok := n.(string); ok && strings.HasPrefix(s, "$") {
				continue
			}
			return n
		}
	}
	return "changed"
}

// Child derives a patch for parent (map-rooted). The edits hit things that
// exist in the parent so that the merge rules are exercised.
func (c ChildCfg) Child(r *Rand, parent any) map[string]any {
	patch := map[string]any{}
	pm, ok := parent.(map[string]any)
	if !ok {
		return map[string]any{PickAny(r, c.Tree.Keys): c.Tree.Scalar(r)}
	}
	cands := keyPositions(pm, nil)
	for i := 0; i < c.Edits; i++ {
		if len(cands) == 0 || r.Chance(0.2) {
			patch[PickAny(r, WideKeys[6:])] = c.Tree.Tree(r, 2)
			continue
		}
		p := PickAny(r, cands)
		ks, _ := p.KeysOnly()
		v, _ := Get(pm, p)
		var edit any
		switch x := v.(type) {
		case map[string]any:
			switch r.Intn(5) {
			case 0:
				edit = "$delete"
			case 1:
				m := c.Tree.Map(r, 1)
				m["$replace"] = true
				edit = m
			default:
				edit = map[string]any{PickAny(r, WideKeys[6:]): c.Tree.Tree(r, 1)}
			}
		case []any:
			switch {
			case len(x) > 0 && r.Chance(0.3):
				e := x[r.Intn(len(x))]
				pat := pattern(r, e)
				if isMap(e) {
					edit = []any{map[string]any{"$match": pat, PickAny(r, WideKeys[6:]): c.Tree.Scalar(r)}}
				} else {
					edit = []any{map[string]any{"$match": pat, "$value": differentScalar(r, c.Tree, e)}}
				}
			case len(x) > 0 && r.Chance(0.3):
				edit = []any{map[string]any{"$delete": pattern(r, x[r.Intn(len(x))])}}
			case r.Chance(0.2):
				edit = []any{c.Tree.Scalar(r), "$replace"}
			default:
				edit = []any{c.Tree.Tree(r, 1)}
			}
		default:
			switch {
			case r.Chance(c.PUseless):
				edit = v // useless override
			case r.Chance(0.15):
				edit = "$delete"
			case r.Chance(0.15):
				edit = c.Tree.Map(r, 1)
			default:
				edit = differentScalar(r, c.Tree, v)
			}
		}
		patch = mergeInto(patch, nestAt(ks, edit))
	}
	if len(patch) == 0 {
		patch[PickAny(r, WideKeys[6:])] = c.Tree.Scalar(r)
	}
	return patch
}

// ---------------------------------------------------------------------------
// serialisers (the driver writes layer files itself; it does not link bkl)

// HasNull reports whether a tree contains a null.
func HasNull(v any) bool {
	switch x := v.(type) {
	case nil:
		return true
	case map[string]any:
		for _, e := range x {
			if HasNull(e) {
				return true
			}
		}
	case []any:
		for _, e := range x {
			if HasNull(e) {
				return true
			}
		}
	}
	return false
}

func jsonStr(s string) string {
	var b bytes.Buffer
	enc := json.NewEncoder(&b)
	enc.SetEscapeHTML(false)
	_ = enc.Encode(s)
	return strings.TrimRight(b.String(), "\n")
}

func numStr(v any) (string, bool) {
	switch x := v.(type) {
	case int:
		return strconv.Itoa(x), true
	case float64:
		if math.IsInf(x, 0) || math.IsNaN(x) {
			return "", false
		}
		s := strconv.FormatFloat(x, 'g', -1, 64)
		if !strings.ContainsAny(s, ".eE") {
			s += ".0"
		}
		return s, true
	}
	return "", false
}

// JSONText renders a document as JSON.
func JSONText(v any) string { return wire.Canon(v) + "\n" }

// YAMLText renders a document as block-style YAML with quoted strings.
func YAMLText(v any) string {
	var b strings.Builder
	yamlNode(&b, v, 0, false)
	s := b.String()
	if !strings.HasSuffix(s, "\n") {
		s += "\n"
	}
	return s
}

func yamlScalar(v any) (string, bool) {
	switch x := v.(type) {
	case nil:
		return "null", true
	case bool:
		if x {
			return "true", true
		}
		return "false", true
	case string:
		return jsonStr(x), true
	}
	if s, ok := numStr(v); ok {
		return s, true
	}
	return "", false
}

func yamlNode(b *strings.Builder, v any, indent int, inline bool) {
	pad := strings.Repeat("  ", indent)
	switch x := v.(type) {
	case map[string]any:
		if len(x) == 0 {
			b.WriteString("{}\n")
			return
		}
		if inline {
			b.WriteString("\n")
		}
		for _, k := range SortedKeys(x) {
			b.WriteString(pad + jsonStr(k) + ": ")
			yamlNode(b, x[k], indent+1, true)
		}
	case []any:
		if len(x) == 0 {
			b.WriteString("[]\n")
			return
		}
		if inline {
			b.WriteString("\n")
		}
		for _, e := range x {
			b.WriteString(pad + "- ")
			switch e.(type) {
			case map[string]any, []any:
				// nested container under a dash: use flow style (valid YAML)
				b.WriteString(wire.Canon(e) + "\n")
			default:
				s, _ := yamlScalar(e)
				b.WriteString(s + "\n")
			}
		}
	default:
		s, _ := yamlScalar(v)
		b.WriteString(s + "\n")
	}
}

// TOMLText renders a map-rooted, null-free document as TOML (inline tables).
func TOMLText(v any) (string, bool) {
	m, ok := v.(map[string]any)
	if !ok || HasNull(v) {
		return "", false
	}
	var b strings.Builder
	for _, k := range SortedKeys(m) {
		s, ok := tomlValue(m[k])
		if !ok {
			return "", false
		}
		b.WriteString(jsonStr(k) + " = " + s + "\n")
	}
	return b.String(), true
}

func tomlValue(v any) (string, bool) {
	switch x := v.(type) {
	case wire.Opaque:
		// a native TOML date / time, written bare
		if strings.HasPrefix(x.Type, "toml.Local") {
			return x.Repr, true
		}
		return "", false
	case bool:
		if x {
			return "true", true
		}
		return "false", true
	case string:
		if strings.ContainsAny(x, "\x7f") {
			return "", false
		}
		return jsonStr(x), true
	case map[string]any:
		parts := []string{}
		for _, k := range SortedKeys(x) {
			s, ok := tomlValue(x[k])
			if !ok {
				return "", false
			}
			parts = append(parts, jsonStr(k)+" = "+s)
		}
		return "{" + strings.Join(parts, ", ") + "}", true
	case []any:
		parts := []string{}
		for _, e := range x {
			s, ok := tomlValue(e)
			if !ok {
				return "", false
			}
			parts = append(parts, s)
		}
		return "[" + strings.Join(parts, ", ") + "]", true
	}
	return numStr(v)
}

// EscapeDollars respells every "$" of a text produced by StreamText as an
// escape sequence of the format (all strings are double-quoted there, so a
// "$" only ever occurs inside one): the decoded documents are the same, the
// bytes hold no "$" at all.
func EscapeDollars(ext, text string) string {
	switch ext {
	case "yaml", "yml":
		return strings.ReplaceAll(text, "$", `\x24`)
	default:
		return strings.ReplaceAll(text, "$", `\u0024`)
	}
}

// StreamText renders a stream of documents in the format of ext
// (json|jsonl|yaml|yml|toml). ok is false if the format cannot represent it.
func StreamText(ext string, docs []any) (string, bool) {
	switch ext {
	case "json", "jsonl", "json-pretty":
		var b strings.Builder
		for _, d := range docs {
			b.WriteString(JSONText(d))
		}
		return b.String(), true
	case "yaml", "yml":
		parts := []string{}
		for _, d := range docs {
			parts = append(parts, YAMLText(d))
		}
		return strings.Join(parts, "---\n"), true
	case "toml":
		parts := []string{}
		for _, d := range docs {
			s, ok := TOMLText(d)
			if !ok {
				return "", false
			}
			parts = append(parts, s)
		}
		return strings.Join(parts, "---\n"), true
	}
	return "", false
}
