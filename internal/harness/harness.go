// Package harness is what every check shares: the run loop, evidence,
// violation reports with materialised replay files, known findings, and the
// generic minimiser.
package harness

import (
	"bufio"
	"crypto/sha256"
	"encoding/hex"
	"encoding/json"
	"fmt"
	"os"
	"path/filepath"
	"sort"
	"strings"
	"sync"
	"time"
)

// Ctx is the context of one check invocation.
type Ctx struct {
	Prop     string
	Tier     string // quick | thorough
	Seed     int64
	VerifDir string
	RepoDir  string
	Workers  int
	Start    time.Time
	Ev       *Evidence
	Known    []Finding
	mu       sync.Mutex
	knownHit map[string]bool
	// Deadline is a safety net; run counts are the primary budget.
	Deadline time.Time
}

// Thorough reports whether the thorough tier was requested.
func (c *Ctx) Thorough() bool { return c.Tier == "thorough" }

// Pick returns q for the quick tier and t for the thorough tier.
func (c *Ctx) Pick(q, t int) int {
	if c.Thorough() {
		return t
	}
	return q
}

// Expired reports whether the wall-clock safety net has been reached.
func (c *Ctx) Expired() bool { return !c.Deadline.IsZero() && time.Now().After(c.Deadline) }

// Evidence is written to evidence/<id>.json on every run.
type Evidence struct {
	PropertyID  string         `json:"property_id"`
	Tier        string         `json:"tier"`
	Seed        int64          `json:"seed"`
	Level       string         `json:"level"`
	Coverage    map[string]any `json:"coverage"`
	Assumptions []string       `json:"assumptions"`
	WallS       float64        `json:"wall_s"`
	Violations  int            `json:"violations"`

	mu       sync.Mutex
	evals    int64
	distinct map[string]struct{}
	counters map[string]int64
	sets     map[string]map[string]struct{}
	samples  []any
	maxes    map[string]int64
}

// NewEvidence creates an evidence record.
func NewEvidence(prop, tier string, seed int64) *Evidence {
	return &Evidence{PropertyID: prop, Tier: tier, Seed: seed, Level: "exploration",
		Coverage: map[string]any{}, distinct: map[string]struct{}{}, counters: map[string]int64{},
		sets: map[string]map[string]struct{}{}, maxes: map[string]int64{}}
}

// Eval counts one evaluation; nontrivialKey != "" marks it non-trivial with
// that canonical identity.
func (e *Evidence) Eval(nontrivialKey string) {
	e.mu.Lock()
	defer e.mu.Unlock()
	e.evals++
	if nontrivialKey != "" {
		e.distinct[Hash(nontrivialKey)] = struct{}{}
	}
}

// Count adds to a named counter (fault kinds fired, probes, outcomes).
func (e *Evidence) Count(name string, n int64) {
	if n == 0 {
		return
	}
	e.mu.Lock()
	defer e.mu.Unlock()
	e.counters[name] += n
}

// Max records the maximum of a named quantity.
func (e *Evidence) Max(name string, n int64) {
	e.mu.Lock()
	defer e.mu.Unlock()
	if n > e.maxes[name] {
		e.maxes[name] = n
	}
}

// Distinct adds a member to a named set whose size is reported.
func (e *Evidence) Distinct(set, member string) {
	e.mu.Lock()
	defer e.mu.Unlock()
	s := e.sets[set]
	if s == nil {
		s = map[string]struct{}{}
		e.sets[set] = s
	}
	s[Hash(member)] = struct{}{}
}

// Sample keeps up to three materialised cases.
func (e *Evidence) Sample(v any) {
	e.mu.Lock()
	defer e.mu.Unlock()
	if len(e.samples) < 3 {
		e.samples = append(e.samples, v)
	}
}

// Counter reads a counter.
func (e *Evidence) Counter(name string) int64 {
	e.mu.Lock()
	defer e.mu.Unlock()
	return e.counters[name]
}

// Evals reads the evaluation count.
func (e *Evidence) Evals() int64 {
	e.mu.Lock()
	defer e.mu.Unlock()
	return e.evals
}

// Write finalises and writes the evidence file.
func (e *Evidence) Write(dir string, wall float64, violations int) error {
	e.mu.Lock()
	defer e.mu.Unlock()
	e.WallS = wall
	e.Violations = violations
	e.Coverage["evaluations"] = e.evals
	e.Coverage["distinct_nontrivial"] = len(e.distinct)
	if e.samples == nil {
		e.samples = []any{}
	}
	e.Coverage["samples"] = e.samples
	counters := map[string]int64{}
	for k, v := range e.counters {
		counters[k] = v
	}
	e.Coverage["counters"] = counters
	sizes := map[string]int{}
	for k, v := range e.sets {
		sizes[k] = len(v)
	}
	e.Coverage["distinct_sets"] = sizes
	mx := map[string]int64{}
	for k, v := range e.maxes {
		mx[k] = v
	}
	e.Coverage["maxima"] = mx
	if wall > 0 {
		e.Coverage["runs_per_hour"] = int64(float64(e.evals) / wall * 3600)
	}
	e.Coverage["sim_time"] = "n/a — there is no clock, timer or deadline in the system under test; progress is measured in scheduler events and evaluator steps"
	if err := os.MkdirAll(dir, 0o755); err != nil {
		return err
	}
	js, err := json.MarshalIndent(e, "", " ")
	if err != nil {
		return err
	}
	return os.WriteFile(filepath.Join(dir, e.PropertyID+".json"), append(js, '\n'), 0o644)
}

// Hash is a short stable hash of a string.
func Hash(s string) string {
	h := sha256.Sum256([]byte(s))
	return hex.EncodeToString(h[:12])
}

// ---------------------------------------------------------------------------
// violations and replay files

// Violation is one failed oracle clause on one materialised case.
type Violation struct {
	Property    string `json:"property"`
	Check       string `json:"check"`
	Clause      string `json:"clause"`
	Seed        int64  `json:"verif_seed"`
	Run         int64  `json:"run"`
	Case        any    `json:"case"`
	Observed    any    `json:"observed,omitempty"`
	Note        string `json:"note,omitempty"`
	Shrunk      bool   `json:"minimised"`
	ShrinkExecs int    `json:"minimiser_executions,omitempty"`
}

// WriteReplay writes the replay file and returns its path.
func (c *Ctx) WriteReplay(v *Violation) (string, error) {
	dir := filepath.Join(c.VerifDir, "out", "replays")
	if err := os.MkdirAll(dir, 0o755); err != nil {
		return "", err
	}
	name := fmt.Sprintf("%s-%s-s%d-r%d.json", v.Property, v.Check, v.Seed, v.Run)
	p := filepath.Join(dir, name)
	js, err := json.MarshalIndent(v, "", " ")
	if err != nil {
		return "", err
	}
	return p, os.WriteFile(p, append(js, '\n'), 0o644)
}

// Report prints the VIOLATION line (or the KNOWN-FINDING line if the
// violation matches a listed finding) and returns true if it counts.
func (c *Ctx) Report(v *Violation, matchKey string) bool {
	for _, f := range c.Known {
		if f.Kind == "finding" && f.Property == v.Property && f.Match != "" && f.Match == matchKey {
			c.mu.Lock()
			if c.knownHit == nil {
				c.knownHit = map[string]bool{}
			}
			first := !c.knownHit[f.ID]
			c.knownHit[f.ID] = true
			c.mu.Unlock()
			if first {
				fmt.Printf("KNOWN-FINDING: property=%s %s\n", v.Property, f.What)
			}
			c.Ev.Count("known_finding_hits:"+f.ID, 1)
			return false
		}
	}
	p, err := c.WriteReplay(v)
	if err != nil {
		fmt.Fprintf(os.Stderr, "cannot write replay: %v\n", err)
		p = "(unwritable)"
	}
	fmt.Printf("VIOLATION property=%s replay=%s\n", v.Property, p)
	fmt.Printf("  clause=%s run=%d seed=%d %s\n", v.Clause, v.Run, v.Seed, v.Note)
	return true
}

// Finding is one line of known_findings.jsonl.
type Finding struct {
	Kind     string `json:"kind"` // finding | fixed
	ID       string `json:"id"`
	Property string `json:"property"`
	// Match names the predicate (implemented by the check) that a minimised
	// violation must satisfy to be this finding.
	Match  string `json:"match,omitempty"`
	What   string `json:"what"`
	Commit string `json:"commit,omitempty"`
}

// LoadFindings reads known_findings.jsonl (never written at run time).
func LoadFindings(verifDir string) ([]Finding, error) {
	f, err := os.Open(filepath.Join(verifDir, "known_findings.jsonl"))
	if err != nil {
		if os.IsNotExist(err) {
			return nil, nil
		}
		return nil, err
	}
	defer f.Close()
	var out []Finding
	sc := bufio.NewScanner(f)
	sc.Buffer(make([]byte, 1<<20), 1<<20)
	for sc.Scan() {
		line := strings.TrimSpace(sc.Text())
		if line == "" || strings.HasPrefix(line, "#") {
			continue
		}
		var fd Finding
		if err := json.Unmarshal([]byte(line), &fd); err != nil {
			return nil, fmt.Errorf("known_findings.jsonl: %w", err)
		}
		out = append(out, fd)
	}
	return out, sc.Err()
}

// ---------------------------------------------------------------------------
// run loop

// RunResult is what one run reports back to the loop.
type RunResult struct {
	Run       int64
	Violation *Violation
	MatchKey  string // known-finding predicate satisfied by the violation, if any
	Err       error  // infrastructure trouble
}

// Loop executes runs [start,n) on `workers` goroutines in batches and stops
// after the first batch containing violations; it returns them in run order
// (so the outcome is a function of the seed, not of timing) together with the
// index at which to continue.
func (c *Ctx) Loop(start, n int64, fn func(run int64) RunResult) ([]RunResult, int64, error) {
	batch := int64(c.Workers * 32)
	if batch < 64 {
		batch = 64
	}
	for lo := start; lo < n; lo += batch {
		if c.Expired() {
			c.Ev.Count("stopped_by_deadline", 1)
			break
		}
		hi := lo + batch
		if hi > n {
			hi = n
		}
		results := make([]RunResult, hi-lo)
		var wg sync.WaitGroup
		sem := make(chan struct{}, c.Workers)
		for run := lo; run < hi; run++ {
			wg.Add(1)
			sem <- struct{}{}
			go func(run int64) {
				defer wg.Done()
				defer func() { <-sem }()
				results[run-lo] = fn(run)
				results[run-lo].Run = run
			}(run)
		}
		wg.Wait()
		sort.Slice(results, func(i, j int) bool { return results[i].Run < results[j].Run })
		var viols []RunResult
		for i := range results {
			if results[i].Err != nil {
				return nil, 0, results[i].Err
			}
			if results[i].Violation != nil {
				viols = append(viols, results[i])
			}
		}
		if len(viols) > 0 {
			return viols, hi, nil
		}
	}
	return nil, n, nil
}

// Drive runs the loop to completion. Every violation is first minimised by
// finish (which also names the known-finding predicate the case satisfies, if
// any); a violation matching a listed finding prints KNOWN-FINDING once and
// the loop carries on; any other violation is reported and ends the check.
func (c *Ctx) Drive(n int64, fn func(run int64) RunResult, finish func(*Violation) (*Violation, string)) (int, error) {
	start := int64(0)
	for start < n {
		viols, next, err := c.Loop(start, n, fn)
		if err != nil {
			return 0, err
		}
		for i := range viols {
			v, key := viols[i].Violation, viols[i].MatchKey
			if finish != nil {
				v, key = finish(viols[i].Violation)
			}
			if c.Report(v, key) {
				return 1, nil
			}
		}
		if len(viols) == 0 {
			break
		}
		start = next
	}
	return 0, nil
}

// ---------------------------------------------------------------------------
// minimiser

// Shrink greedily minimises a failing case. candidates returns smaller
// variants in preferred order; fails re-executes a candidate and reports
// whether the same oracle clause still fails. At most budget executions.
func Shrink[T any](cur T, candidates func(T) []T, fails func(T) bool, budget int) (T, int) {
	used := 0
	for {
		progressed := false
		for _, cand := range candidates(cur) {
			if used >= budget {
				return cur, used
			}
			used++
			if fails(cand) {
				cur = cand
				progressed = true
				break
			}
		}
		if !progressed {
			return cur, used
		}
	}
}
