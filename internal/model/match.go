// Package model holds the small reference models the oracles use. They are
// written from the documentation (the Parser doc comment and the language
// reference), not from the implementation.
package model

import "wire"

// Match is bkl's partial (subset) match: every entry of a map pattern must
// match the corresponding entry of the object, every entry of a list pattern
// must match some entry of the object list, scalars must be equal; a map
// pattern with "$invert: true" negates.
func Match(obj, pat any) bool {
	switch p := pat.(type) {
	case map[string]any:
		if inv, ok := p["$invert"].(bool); ok && inv {
			rest := map[string]any{}
			for k, v := range p {
				if k != "$invert" {
					rest[k] = v
				}
			}
			return !Match(obj, rest)
		}
		o, ok := obj.(map[string]any)
		if !ok {
			return false
		}
		if len(o) == 1 {
			for k := range o {
				if k == "$merge" || k == "$replace" || k == "$encode" {
					return false // a placeholder never matches
				}
			}
		}
		for k, pv := range p {
			if !Match(o[k], pv) {
				return false
			}
		}
		return true
	case []any:
		o, ok := obj.([]any)
		if !ok {
			return false
		}
		for _, pv := range p {
			found := false
			for _, ov := range o {
				if Match(ov, pv) {
					found = true
					break
				}
			}
			if !found {
				return false
			}
		}
		return true
	default:
		switch obj.(type) {
		case map[string]any, []any:
			return false
		}
		return wire.Equal(obj, pat)
	}
}
