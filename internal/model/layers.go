package model

import (
	"fmt"
	"os"
	"path/filepath"
	"sort"
	"strings"
)

// Layer resolution reference model, from the documentation:
//
//   - evaluating a.b.c.<ext> applies a, a.b, a.b.c base first; each layer is
//     found under any supported extension;
//   - $parent in any document of a file overrides the filename rule: a name,
//     a list of names, a * wildcard that does not cross dots, or false/null
//     (no parent); names are relative to the file's directory;
//   - a symlink inherits from its target's name;
//   - a missing layer is an error.
//
// The model works on a materialised directory (it needs the kernel's view of
// symlinks) and on the documents the generator put into each file.

// Exts are the supported extensions.
var Exts = []string{"json", "json-pretty", "jsonl", "toml", "yaml", "yml"}

func supported(ext string) bool {
	for _, e := range Exts {
		if e == ext {
			return true
		}
	}
	return false
}

// Load is one file load, in merge order.
type Load struct {
	Path    string // as opened
	Parents []int  // indices (into the load list) of the loads of its parent files
	// Wildcard: reached through a $parent wildcard (removing one of several
	// matches is a different, legitimate configuration, not a missing layer)
	Wildcard bool
}

// ResolveError is an expected resolution failure.
type ResolveError struct{ Why string }

func (e *ResolveError) Error() string { return e.Why }

// DocsOf returns the documents of a file (by cleaned absolute path).
type DocsOf func(path string) ([]any, bool)

// Resolver resolves inheritance chains.
type Resolver struct {
	Docs DocsOf
	// Ambiguous is set when some layer name is provided by more than one
	// file (the property excludes such layouts)
	Ambiguous bool
	wild      map[string]bool
}

func ext(p string) string { return strings.TrimPrefix(filepath.Ext(p), ".") }

// findLayer finds the file providing layer name `base` (path without
// extension) under any supported extension.
func (r *Resolver) findLayer(base string) (string, bool) {
	var found []string
	for _, e := range Exts {
		p := base + "." + e
		// a provider is a directory entry with that name (a name that
		// cannot even be looked up — too long for the filesystem — is no provider)
		if _, err := os.Lstat(p); err == nil {
			found = append(found, p)
		}
	}
	if len(found) > 1 {
		r.Ambiguous = true
	}
	if len(found) == 0 {
		return "", false
	}
	return found[0], true
}

func globEscape(p string) string {
	return strings.NewReplacer("\\", "\\\\", "*", "\\*", "?", "\\?", "[", "\\[").Replace(p)
}

// glob expands "<path>.*": the wildcard (and the extension) never cross a dot.
func glob(path string) []string {
	pat := path + ".*"
	dots := strings.Count(pat, ".")
	ms, _ := filepath.Glob(pat)
	var out []string
	for _, m := range ms {
		if strings.Count(m, ".") != dots || !supported(ext(m)) {
			continue
		}
		out = append(out, m)
	}
	sort.Strings(out)
	return out
}

// parentsOf lists the parent files of a file, in order.
func (r *Resolver) parentsOf(path string) ([]string, error) {
	docs, ok := r.Docs(path)
	if !ok {
		return nil, &ResolveError{"unreadable layer " + path}
	}
	var names []string
	none := false
	seenDirective := false
	for _, d := range docs {
		m, ok := d.(map[string]any)
		if !ok {
			continue
		}
		v, has := m["$parent"]
		if !has {
			continue
		}
		seenDirective = true
		switch x := v.(type) {
		case string:
			names = append(names, x)
		case []any:
			for _, e := range x {
				s, ok := e.(string)
				if !ok {
					return nil, &ResolveError{"invalid $parent"}
				}
				names = append(names, s)
			}
		case bool:
			if x {
				return nil, &ResolveError{"$parent: true"}
			}
			none = true
		case nil:
			none = true
		default:
			// a number, a map: not a way to name a parent
			return nil, &ResolveError{"invalid $parent"}
		}
	}
	if none {
		if len(names) > 0 {
			return nil, &ResolveError{"conflicting $parent"}
		}
		return nil, nil
	}
	if seenDirective && len(names) > 0 {
		var out []string
		for _, n := range names {
			// the declaring file's directory is a literal path; only the
			// $parent value may hold wildcards
			ms := glob(filepath.Join(globEscape(filepath.Dir(path)), n))
			if len(ms) == 0 {
				return nil, &ResolveError{"missing $parent layer " + n}
			}
			if len(ms) > 1 && !strings.Contains(n, "*") {
				r.Ambiguous = true
			}
			if strings.Contains(n, "*") {
				if r.wild == nil {
					r.wild = map[string]bool{}
				}
				for _, m := range ms {
					r.wild[m] = true
				}
			}
			out = append(out, ms...)
		}
		return out, nil
	}
	// symlink: inherit from the target's name
	p := path
	if dest, err := filepath.EvalSymlinks(path); err != nil {
		return nil, &ResolveError{"unresolvable symlink " + path}
	} else if dest != path {
		p = dest
	}
	base := filepath.Base(p)
	parts := strings.Split(base, ".")
	switch {
	case len(parts) < 2:
		return nil, &ResolveError{"invalid filename " + base}
	case len(parts) == 2:
		return nil, nil
	}
	layer := filepath.Join(filepath.Dir(p), strings.Join(parts[:len(parts)-2], "."))
	f, ok := r.findLayer(layer)
	if !ok {
		return nil, &ResolveError{"missing layer " + layer}
	}
	return []string{f}, nil
}

// Chain returns the loads for one input file, parents first (post-order;
// a file reachable twice is loaded twice).
func (r *Resolver) Chain(path string, loads *[]Load, stack []string) (int, error) {
	for _, s := range stack {
		if filepath.Clean(s) == filepath.Clean(path) {
			return 0, &ResolveError{"$parent cycle through " + path}
		}
	}
	if len(stack) > 50 {
		return 0, &ResolveError{"chain too deep"}
	}
	if _, ok := r.Docs(path); !ok {
		return 0, &ResolveError{"unreadable layer " + path}
	}
	ps, err := r.parentsOf(path)
	if err != nil {
		return 0, err
	}
	var idx []int
	for _, p := range ps {
		i, err := r.Chain(p, loads, append(stack, path))
		if err != nil {
			return 0, err
		}
		idx = append(idx, i)
	}
	*loads = append(*loads, Load{Path: path, Parents: idx, Wildcard: r.wild[path]})
	return len(*loads) - 1, nil
}

// Input resolves a command-line input (possibly a virtual name: the same base
// name under another supported extension) to the real file and the output
// format its extension asks for.
func (r *Resolver) Input(arg string) (string, string, error) {
	e := ext(arg)
	if !supported(e) {
		return "", "", &ResolveError{"unsupported extension " + e}
	}
	base := strings.TrimSuffix(arg, "."+e)
	f, ok := r.findLayer(base)
	if !ok {
		return "", "", &ResolveError{fmt.Sprintf("missing input %s.*", base)}
	}
	return f, e, nil
}
