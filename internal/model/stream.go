package model

// Stream is the reference model of document targeting when a layer document
// is applied to the parser's state (from the Parser doc comment):
//
//   - with $match: null            -> a new document is appended
//   - with $match: pattern         -> the matching documents among the
//     document's lineage; if none, the matching documents anywhere; if none,
//     an error
//   - without $match               -> every state document in the lineage;
//     if there is none, the document is appended
//
// The lineage of a document is the transitive closure of its parents, where a
// document that has been merged into a state document gains that state
// document as a parent. The order of state documents never changes.
type Stream struct {
	parents map[string][]string
	State   []*StateDoc
}

// StateDoc is one document of the parser state.
type StateDoc struct {
	ID      string
	Attrs   any   // the data the $match patterns of the workload look at
	Origin  int   // index of the call that created it
	Patches []int // indices of the calls merged into it, in order
}

// NewStream creates an empty model.
func NewStream() *Stream { return &Stream{parents: map[string][]string{}} }

func (s *Stream) closure(id string, seen map[string]bool) {
	for _, p := range s.parents[id] {
		if !seen[p] {
			seen[p] = true
			s.closure(p, seen)
		}
	}
}

// Apply applies call number idx: a document with the given id, declared
// parents and data. It returns the state documents it is merged into
// (indices into State), whether it created a new state document, and whether
// the model expects a "no match" error.
func (s *Stream) Apply(idx int, id string, declared []string, data any) (targets []int, created bool, noMatch bool) {
	s.parents[id] = append([]string{}, declared...)
	lineage := map[string]bool{}
	s.closure(id, lineage)
	m, isMap := data.(map[string]any)
	pat, hasMatch := any(nil), false
	if isMap {
		pat, hasMatch = m["$match"]
	}
	if hasMatch {
		if pat == nil {
			nid := id + "|matchnull"
			rest := map[string]any{}
			for k, v := range m {
				if k != "$match" {
					rest[k] = v
				}
			}
			s.State = append(s.State, &StateDoc{ID: nid, Attrs: rest, Origin: idx})
			s.parents[id] = append(s.parents[id], nid)
			return nil, true, false
		}
		for pass := 0; pass < 2 && len(targets) == 0; pass++ {
			for i, d := range s.State {
				if pass == 0 && !lineage[d.ID] {
					continue
				}
				if Match(d.Attrs, pat) {
					targets = append(targets, i)
				}
			}
		}
		if len(targets) == 0 {
			return nil, false, true
		}
	} else {
		for i, d := range s.State {
			if lineage[d.ID] {
				targets = append(targets, i)
			}
		}
		if len(targets) == 0 {
			s.State = append(s.State, &StateDoc{ID: id, Attrs: data, Origin: idx})
			return nil, true, false
		}
	}
	for _, t := range targets {
		if isMap {
			switch s.State[t].Attrs.(type) {
			case map[string]any, []any:
			default:
				// an empty or scalar document is replaced by the first map
				// layered over it: later patterns see that map
				rest := map[string]any{}
				for k, v := range m {
					if k != "$match" {
						rest[k] = v
					}
				}
				s.State[t].Attrs = rest
			}
		}
		if isMap {
			if rep, ok := m["$replace"].(bool); ok && rep {
				// the whole document is replaced: later patterns see the new data
				rest := map[string]any{}
				for k, v := range m {
					if k != "$match" && k != "$replace" {
						rest[k] = v
					}
				}
				s.State[t].Attrs = rest
			}
		}
		s.State[t].Patches = append(s.State[t].Patches, idx)
		s.parents[id] = append(s.parents[id], s.State[t].ID)
	}
	return targets, false, false
}
