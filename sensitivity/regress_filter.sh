#!/bin/bash
# usage: regress-filter.sh <pattern>   (worktree-based regression of the stored seeds whose id matches)
cd "$(dirname "$0")/.." || exit 2
for D in seeded/*$1*/; do
  ID=$(basename "$D"); PROP=$(python3 -c "import json;print(json.load(open('$D/meta.json'))['property'])")
  if grep -q '"superseded_by_fix"' "$D/meta.json"; then echo "$ID: superseded, skipped"; continue; fi
  WT=/tmp/wt-regress-$ID
  git -C /repo worktree remove --force "$WT" 2>/dev/null
  git -C /repo worktree add -q --detach "$WT" HEAD || continue
  git -C "$WT" apply "$PWD/$D/patch.diff" || { echo "$ID: patch does not apply"; git -C /repo worktree remove --force "$WT"; continue; }
  VERIF_REPO=$WT VERIF_EVIDENCE_DIR=/tmp/ev-regress-$1 ./run.sh "$PROP" quick > /tmp/regress-$ID.log 2>&1; RC=$?
  git -C /repo worktree remove --force "$WT"
  echo "$ID: exit=$RC $(grep -m1 'clause=' /tmp/regress-$ID.log | sed 's/^ *//')"
done
rm -rf /tmp/ev-regress-$1
