#!/bin/bash
# usage: tryseed.sh <worktree-with-seeded-change> <property> [more properties...]
# Runs the quick check of each property against the worktree (through VERIF_REPO;
# /repo is not touched) and prints the verdict lines.
WT=$1; shift
cd "$(dirname "$0")/.." || exit 2
for P in "$@"; do
  echo "== $P against $WT"
  VERIF_REPO=$WT VERIF_EVIDENCE_DIR=/tmp/ev-seed ./run.sh $P quick 2>&1 | grep -E "VIOLATION|clause=|KNOWN|verif: property=.*evaluations|infrastructure|falling back" | cut -c1-220
done
rm -rf /tmp/ev-seed
