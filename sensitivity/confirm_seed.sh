#!/bin/bash
# usage: confirm_seed.sh <agent-worktree> <seed-id> <property> <demo command (run in worktree root)>
# Confirms a seeded change independently in a fresh scratch worktree, stores it
# under /verif/seeded/<seed-id>/ and runs the property's quick check against it
# the official way (git -C /repo apply; run; git -C /repo checkout -- .).
set -u
SRC=$1; ID=$2; PROP=$3; DEMO=$4
VERIF=$(cd "$(dirname "$0")/.." && pwd)
OUT=$VERIF/seeded/$ID
export GOFLAGS=-mod=mod GOPROXY=off
unset GOSUMDB GOTOOLCHAIN
mkdir -p "$OUT"
git -C "$SRC" diff -- . ":!demo" ":!SEEDED.md" > "$OUT/patch.diff"
rm -rf "$OUT/demo"; cp -r "$SRC/demo" "$OUT/demo" 2>/dev/null
cp "$SRC/SEEDED.md" "$OUT/SEEDED.md" 2>/dev/null
WT=/tmp/wt-confirm-$ID
git -C /repo worktree remove --force "$WT" 2>/dev/null
git -C /repo worktree add -q --detach "$WT" HEAD || exit 2
cp -r "$OUT/demo" "$WT/demo"
cd "$WT"
git apply "$OUT/patch.diff" || { echo "patch does not apply"; exit 2; }
BUILD=ok; go build ./... >/tmp/confirm-$ID.build 2>&1 || BUILD=fail
GOTEST=ok; go test -vet=off -count=1 ./... >/tmp/confirm-$ID.gotest 2>&1 || GOTEST=fail
FIX=ok; ./test >/tmp/confirm-$ID.fixtures 2>&1 || FIX=fail
NPASS=$(grep -c PASS /tmp/confirm-$ID.fixtures)
DEMO_WITH=pass; bash -c "$DEMO" >/tmp/confirm-$ID.demo-with 2>&1 || DEMO_WITH=fail
git apply -R "$OUT/patch.diff"
DEMO_WITHOUT=pass; bash -c "$DEMO" >/tmp/confirm-$ID.demo-without 2>&1 || DEMO_WITHOUT=fail
cd "$VERIF"
git -C /repo worktree remove --force "$WT"
if [ "${OFFICIAL:-1}" = "1" ]; then
  # the official way: apply to /repo, run, undo straight afterwards
  HOW="git -C /repo apply patch.diff; ./run.sh $PROP quick; git -C /repo checkout -- ."
  git -C /repo apply "$OUT/patch.diff" || { echo "patch does not apply to /repo"; exit 2; }
  VERIF_EVIDENCE_DIR=/tmp/ev-seed-$ID ./run.sh "$PROP" quick > /tmp/confirm-$ID.check 2>&1; RC=$?
  git -C /repo checkout -- .; git -C /repo clean -fdq
else
  # against a scratch worktree of /repo with the patch applied (used while a long sweep is reading /repo)
  HOW="scratch worktree of /repo with patch.diff applied; VERIF_REPO=<worktree> ./run.sh $PROP quick (re-run the official way by sensitivity/rerun_seeds.sh)"
  WT2=/tmp/wt-check-$ID
  git -C /repo worktree remove --force "$WT2" 2>/dev/null
  git -C /repo worktree add -q --detach "$WT2" HEAD || exit 2
  git -C "$WT2" apply "$OUT/patch.diff" || { echo "patch does not apply"; exit 2; }
  VERIF_REPO=$WT2 VERIF_EVIDENCE_DIR=/tmp/ev-seed-$ID ./run.sh "$PROP" quick > /tmp/confirm-$ID.check 2>&1; RC=$?
  git -C /repo worktree remove --force "$WT2"
fi
rm -rf /tmp/ev-seed-$ID
VLINE=$(grep -m1 '^VIOLATION' /tmp/confirm-$ID.check)
CLAUSE=$(grep -m1 'clause=' /tmp/confirm-$ID.check | sed 's/^ *//')
python3 - "$OUT/meta.json" <<PY
import json,sys
json.dump({
 "id": "$ID", "property": "$PROP",
 "origin": "independent sub-agent given only the property text and its own scratch worktree",
 "needs_to_manifest": open("$OUT/SEEDED.md").read()[:4000] if __import__("os").path.exists("$OUT/SEEDED.md") else "",
 "confirmed_in_scratch_worktree": {"go_build": "$BUILD", "go_test": "$GOTEST", "shell_fixtures": "$FIX ($NPASS PASS)", "demo_command": """$DEMO""", "demo_with_change": "$DEMO_WITH", "demo_without_change": "$DEMO_WITHOUT"},
 "check_run": {"how": """$HOW""", "exit_status": $RC, "violation_line": """$VLINE""", "clause": """$CLAUSE"""},
 "detected": $RC == 1
}, open(sys.argv[1],"w"), indent=1)
PY
echo "$ID: build=$BUILD gotest=$GOTEST fixtures=$FIX($NPASS) demo_with=$DEMO_WITH demo_without=$DEMO_WITHOUT check_exit=$RC $CLAUSE"
