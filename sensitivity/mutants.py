#!/usr/bin/env python3
"""Deliberately broken trees (DESIGN.md section 3, "Sensitivity mutants").

Each mutant is a textual edit of a scratch worktree of /repo (never of /repo
itself); the property's quick check is then run against the worktree through
VERIF_REPO and must print a VIOLATION. Results go to evidence/sensitivity.json
(not to the property evidence).

usage: mutants.py [id-prefix ...]
"""
import json, os, subprocess, sys, time

WT = "/tmp/wt-sens"
VERIF = os.path.dirname(os.path.dirname(os.path.abspath(__file__)))

M = []
def mut(mid, prop, file, old, new, note=""):
    M.append(dict(id=mid, prop=prop, file=file, old=old, new=new, note=note))

# ---- C19
mut("C19-revert-copy", "C19", "parser.go", "Data:    copyTree(doc.Data),", "Data:    doc.Data,", "OutputDocuments evaluates the stored trees again")
mut("C19-copy-only-current", "C19", "parser.go",
    "	for _, doc := range docs {\n		outs, err := p.outputDocument(doc, docs)",
    "	for i, doc := range docs {\n		view := append([]*Document{}, p.docs...)\n		view[i] = doc\n		outs, err := p.outputDocument(doc, view)",
    "only the document being evaluated is a copy; cross-document references read (and merge mutates) the stored ones")
mut("C19-cached-output", "C19", "parser.go",
    "func (p *Parser) Output(format string) ([]byte, error) {\n	outs, err := p.OutputDocuments()",
    "var lastOut = map[*Parser]map[string][]byte{}\n\nfunc (p *Parser) Output(format string) ([]byte, error) {\n	if b, ok := lastOut[p][format]; ok {\n		return b, nil\n	}\n	defer func() {}()\n	outs, err := p.OutputDocuments()",
    "placeholder: replaced below")
# ---- C02
mut("C02-revert-patch-copy", "C02", "merge.go", "merged, err := merge(doc.Data, copyTree(patch.Data))", "merged, err := merge(doc.Data, patch.Data)")
mut("C02-revert-entry-copy", "C02", "merge.go", "v2, err := merge(v2, copyTree(val))", "v2, err := merge(v2, val)")
mut("C02-all-docs-before-lineage", "C02", "parser.go", "for _, ds := range [][]*Document{p.parents(doc), p.docs} {", "for _, ds := range [][]*Document{p.docs, p.parents(doc)} {")
mut("C02-no-return-after-lineage", "C02", "parser.go", "		if len(ret) > 0 {\n			return ret\n		}\n	}\n\n	return nil", "	}\n\n	if len(ret) > 0 {\n		return ret\n	}\n\n	return nil")
mut("C02-first-parent-only", "C02", "parser.go", "	for _, doc := range p.parents(patch) {\n		matched = true\n", "	for _, doc := range p.parents(patch) {\n		if matched {\n			break\n		}\n		matched = true\n")
mut("C02-matchnull-merges-into-last", "C02", "parser.go", "		doc := NewDocument(fmt.Sprintf(\"%s|matchnull\", patch.ID))\n		p.docs = append(p.docs, doc)", "		doc := NewDocument(fmt.Sprintf(\"%s|matchnull\", patch.ID))\n		if len(p.docs) > 2 {\n			doc = p.docs[len(p.docs)-1]\n		} else {\n			p.docs = append(p.docs, doc)\n		}")
mut("C02-nontransitive-lineage", "C02", "document.go", "		for _, doc := range parent.AllParents() {\n			parents[doc.ID] = doc\n		}\n", "")
mut("C02-target-not-recorded", "C02", "merge.go", "	patch.Parents = append(patch.Parents, doc)\n", "")
mut("C02-new-docs-prepended", "C02", "parser.go", "	if !matched {\n		p.docs = append(p.docs, patch)\n	}", "	if !matched {\n		p.docs = append([]*Document{patch}, p.docs...)\n	}")
# ---- C09
mut("C09-revert-merge-copy", "C09", "process1.go", "next, err := mergeMap(obj, copyTree(in))", "next, err := mergeMap(obj, in)")
mut("C09-revert-finalize-sorted", "C09", "finalize.go", "for k, v := range sortedMap(obj) {", "for k, v := range obj {")
mut("C09-findOutputs-unsorted", "C09", "output.go", "	for k, v := range sortedMap(obj) {\n		vNew, subOuts, err := findOutputs(v)", "	for k, v := range obj {\n		vNew, subOuts, err := findOutputs(v)")
mut("C09-repeat-product-unsorted", "C09", "repeat.go", "for name, count := range sortedMap(rs) {", "for name, count := range rs {")
mut("C09-tolist-unsorted", "C09", "process2.go", "	for k, v := range sortedMap(obj2) {\n		switch v2 := v.(type) {", "	for k, v := range obj2 {\n		switch v2 := v.(type) {")
mut("C09-values-unsorted", "C09", "process2.go", "	for _, v := range sortedMap(obj) {\n		vals = append(vals, v)", "	for _, v := range obj {\n		vals = append(vals, v)")
mut("C09-filterMap-unsorted", "C09", "util.go", "	for k, v := range sortedMap(m) {\n		m2, err := filter(k, v)", "	for k, v := range m {\n		m2, err := filter(k, v)")
mut("C09-shared-env-cache", "C09", "evalcontext.go",
    "func NewEvalContext() *EvalContext {\n	return &EvalContext{\n		Vars: envVars(),\n	}\n}",
    "var cachedEnv map[string]any\n\nfunc NewEvalContext() *EvalContext {\n	if cachedEnv == nil {\n		cachedEnv = envVars()\n	}\n	return &EvalContext{\n		Vars: cachedEnv,\n	}\n}",
    "package-level env map shared by all evaluations; $repeat bindings written by repeatDocGenFromMap's ec.Clone are safe, but repeatDocGenFromMap writes $repeat.<k> into a clone... see below")
mut("C09-package-depth-counter", "C09", "process2.go",
    "func process2(obj any, mergeFrom *Document, mergeFromDocs []*Document, ec *EvalContext, depth int) (any, error) {\n	depth++\n\n	if depth > 1000 {",
    "var liveDepth int\n\nfunc process2(obj any, mergeFrom *Document, mergeFromDocs []*Document, ec *EvalContext, depth int) (any, error) {\n	depth++\n	liveDepth++\n	defer func() { liveDepth-- }()\n\n	if liveDepth > 40 {",
    "a package-level depth counter: concurrent / interleaved evaluations add up")
mut("C09-path-cache-keyed-by-path-only", "C09", "get.go",
    "func getPathFromString(obj any, docs []*Document, path string) (any, error) {\n	var path2 any\n	err := yaml.Unmarshal([]byte(path), &path2)\n	if err != nil {\n		return nil, err\n	}\n",
    "var pathCache = map[string]any{}\n\nfunc getPathFromString(obj any, docs []*Document, path string) (any, error) {\n	if v, ok := pathCache[path]; ok {\n		return v, nil\n	}\n	v, err := getPathFromString2(obj, docs, path)\n	if err == nil {\n		if _, scalar := v.(string); scalar {\n			pathCache[path] = v\n		}\n	}\n	return v, err\n}\n\nfunc getPathFromString2(obj any, docs []*Document, path string) (any, error) {\n	var path2 any\n	err := yaml.Unmarshal([]byte(path), &path2)\n	if err != nil {\n		return nil, err\n	}\n",
    "string results of reference lookups memoised in a package-level map keyed by the path text only: a later evaluation of another document in the same process gets the earlier document's value")
# ---- C18
mut("C18-os-open", "C18", "file.go", "fh, err = p.root.Open(relPath)", "_ = relPath\n		fh, err = os.Open(path)")
mut("C18-second-setroot-ignored", "C18", "parser.go", "func (p *Parser) SetRoot(path string) error {", "func (p *Parser) SetRoot(path string) error {\n	if p.rootPath != \"/\" {\n		return nil\n	}")
mut("C18-fallback-open", "C18", "file.go", "		fh, err = p.root.Open(relPath)\n		if err != nil {\n			return nil, fmt.Errorf(\"%s: %w\", path, err)\n		}", "		fh, err = p.root.Open(relPath)\n		if err != nil && child != nil {\n			fh, err = os.Open(absPath)\n		}\n		if err != nil {\n			return nil, fmt.Errorf(\"%s: %w\", path, err)\n		}", "parents fall back to a plain open when the root-relative open fails")
mut("C18-root-flag-not-wired", "C18", "cmd/bkl/main.go", "		err := p.SetRoot(*opts.RootPath)\n		if err != nil {\n			fatal(err)\n		}", "		_ = p\n")
# ---- C08
mut("C08-depth-guard-removed", "C08", "process1.go", "	if depth > 1000 {\n		return nil, fmt.Errorf(\"%#v: %w\", obj, ErrCircularRef)\n	}\n\n	switch obj2 := obj.(type) {\n	case map[string]any:\n		return process1Map(", "	switch obj2 := obj.(type) {\n	case map[string]any:\n		return process1Map(")
mut("C08-write-error-ignored", "C08", "parser.go", "	_, err = fh.Write(out)\n	if err != nil {\n		return errors.Join(ErrOutputFile, err)\n	}", "	_, _ = fh.Write(out)\n	_ = errors.Join")
mut("C08-bkld-fatal-returns", "C08", "cmd/bkld/main.go", "func fatal(err error) {\n	_, _ = fmt.Fprintf(os.Stderr, \"%s\\n\", err)\n	os.Exit(1)\n}", "func fatal(err error) {\n	_, _ = fmt.Fprintf(os.Stderr, \"%s\\n\", err)\n	if len(os.Args) > 3 {\n		os.Exit(1)\n	}\n	os.Exit(0)\n}")
mut("C08-parent-cycle-guard-removed", "C08", "file.go", "		if filepath.Clean(c.loadPath) == filepath.Clean(path) {", "		if false && filepath.Clean(c.loadPath) == filepath.Clean(path) {")
mut("C08-key-assertion-back", "C08", "process2.go", "		k3, ok := k2.(string)\n		if !ok {\n			return nil, fmt.Errorf(\"%s: key evaluates to %T: %w\", k, k2, ErrInvalidType)\n		}\n\n		ret[k3] = v2", "		ret[k2.(string)] = v2")
mut("C08-interp-guard-back", "C08", "process2.go", "v, err = process2(v2, mergeFrom, mergeFromDocs, ec, depth)", "v, err = process2String(v2, mergeFrom, mergeFromDocs, ec, depth+1)")
# ---- C03
mut("C03-child-before-parents", "C03", "file.go", "	return append(files, f), nil", "	return append([]*file{f}, files...), nil")
mut("C03-parent-list-reversed", "C03", "file.go", "			parents = append(parents, val3...)", "			for i := len(val3) - 1; i >= 0; i-- {\n				parents = append(parents, val3[i])\n			}")
mut("C03-wildcard-crosses-dots", "C03", "filepath.go", "		if strings.Count(match, \".\") != patDots {", "		if false && strings.Count(match, \".\") != patDots {")
mut("C03-missing-filename-parent-skipped", "C03", "file.go", "		if extPath == \"\" {\n			return nil, fmt.Errorf(\"[%s]: %w\", layerPath, ErrMissingFile)\n		}", "		if extPath == \"\" {\n			return []string{}, nil\n		}")
mut("C03-missing-directive-parent-skipped", "C03", "file.go", "		if len(matches) == 0 {\n			return nil, fmt.Errorf(\"%s: %w\", path, ErrMissingFile)\n		}", "		if len(matches) == 0 {\n			continue\n		}")
mut("C03-symlink-own-name", "C03", "file.go", "	f.path = dest\n\n	return f.parentsFromFilename()", "	return f.parentsFromFilename()")
mut("C03-parents-relative-to-cwd", "C03", "file.go", "		path = filepath.Join(dir, path)\n\n		matches, err := globFiles(path)", "		_ = dir\n		path = filepath.Clean(path)\n\n		matches, err := globFiles(path)")
mut("C03-parent-false-ignored", "C03", "file.go", "	if noParent {\n		if len(parents) > 0 {", "	if noParent && len(f.docs) > 1 {\n		if len(parents) > 0 {")
mut("C03-revert-skip-parent-fix", "C03", "parser.go", "	for _, doc := range f.docs {\n		doc.PopMapValue(\"$parent\")\n	}\n", "")
mut("C03-unreadable-parent-skipped", "C03", "file.go", "		parentFiles, err := p.loadFileAndParents(parent, f)\n		if err != nil {\n			return nil, err\n		}", "		parentFiles, err := p.loadFileAndParents(parent, f)\n		if err != nil {\n			if strings.Contains(err.Error(), \"bkl error\") {\n				return nil, err\n			}\n			continue\n		}", "an I/O error on a parent layer (not a bkl error) silently skips the layer")
mut("C08-revert-yaml-alias-guard", "C08", "yaml.go", "		if expanding[node.Alias] {", "		if false && expanding[node.Alias] {")
mut("C03-revert-glob-escape", "C03", "file.go", "	dir := globEscape(filepath.Dir(f.path))", "	dir := filepath.Dir(f.path)")
mut("C03-revert-findfile-stat-fix", "C03", "filepath.go", "		if _, err := os.Stat(extPath); err != nil {", "		if _, err := os.Stat(extPath); os.IsNotExist(err) {")
mut("C09-revert-findfile-stat-fix", "C09", "filepath.go", "		if _, err := os.Stat(extPath); err != nil {", "		if _, err := os.Stat(extPath); os.IsNotExist(err) {", "a near-NAME_MAX layer name: the result depends on the order in which extensions are probed (fresh stock processes)")
# ---- C20
mut("C20-continue-on-eval-error", "C20", "wrapper/wrapper.go", "		err = b.MergeFileLayers(realPath)\n		if err != nil {\n			fatal(err)\n		}", "		err = b.MergeFileLayers(realPath)\n		if err != nil {\n			continue\n		}")
mut("C20-format-of-real-file", "C20", "wrapper/wrapper.go", "		err = b.OutputToFile(tmp.Name(), f)", "		_ = f\n		err = b.OutputToFile(tmp.Name(), filepath.Ext(realPath)[1:])")
mut("C20-wrong-argv0", "C20", "wrapper/wrapper.go", "append([]string{cmd}, args...)", "append([]string{cmdPath}, args...)")
mut("C20-parser-hoisted", "C20", "wrapper/wrapper.go", "	for i, arg := range args {\n		realPath, f, err := bkl.FileMatch(arg)\n		if err != nil {\n			continue\n		}\n\n		b, err := bkl.New()\n		if err != nil {\n			fatal(err)\n		}\n", "	b, err := bkl.New()\n	if err != nil {\n		fatal(err)\n	}\n\n	for i, arg := range args {\n		realPath, f, err := bkl.FileMatch(arg)\n		if err != nil {\n			continue\n		}\n")
mut("C20-dashdash-dropped", "C20", "wrapper/wrapper.go", "	args := slices.Clone(os.Args[1:])\n", "	args := slices.Clone(os.Args[1:])\n	args = slices.DeleteFunc(args, func(a string) bool { return a == \"--\" })\n")

# fix the placeholder mutant: a cached output returned after further merges
for m in M:
    if m["id"] == "C19-cached-output":
        m["old"] = "func (p *Parser) Output(format string) ([]byte, error) {\n	outs, err := p.OutputDocuments()\n	if err != nil {\n		return nil, err\n	}\n\n	f, err := GetFormat(format)\n	if err != nil {\n		return nil, err\n	}\n\n	return f.MarshalStream(outs)\n}"
        m["new"] = "var outCache = map[*Parser]map[string][]byte{}\n\nfunc (p *Parser) Output(format string) ([]byte, error) {\n	key := fmt.Sprintf(\"%s/%d\", format, len(p.docs))\n	if b, ok := outCache[p][key]; ok {\n		return b, nil\n	}\n\n	outs, err := p.OutputDocuments()\n	if err != nil {\n		return nil, err\n	}\n\n	f, err := GetFormat(format)\n	if err != nil {\n		return nil, err\n	}\n\n	b, err := f.MarshalStream(outs)\n	if err == nil {\n		if outCache[p] == nil {\n			outCache[p] = map[string][]byte{}\n		}\n		outCache[p][key] = b\n	}\n\n	return b, err\n}"
        m["note"] = "output cached per (format, number of documents): stale after a merge that changes no document count"

def sh(cmd, **kw):
    return subprocess.run(cmd, shell=True, stdout=subprocess.PIPE, stderr=subprocess.STDOUT, text=True, **kw)

def main():
    want = sys.argv[1:]
    sh(f"git -C /repo worktree remove --force {WT}")
    r = sh(f"git -C /repo worktree add -q --detach {WT} HEAD")
    if r.returncode != 0:
        print(r.stdout); sys.exit(2)
    results = []
    env = dict(os.environ, VERIF_REPO=WT, VERIF_EVIDENCE_DIR="/tmp/ev-sens", GOFLAGS="-mod=mod", GOPROXY="off")
    try:
        for m in M:
            if want and not any(m["id"].startswith(w) for w in want):
                continue
            sh(f"git -C {WT} checkout -- .")
            path = os.path.join(WT, m["file"])
            src = open(path).read()
            if m["old"] not in src:
                results.append(dict(id=m["id"], property=m["prop"], status="edit-does-not-apply"))
                print(m["id"], "EDIT DOES NOT APPLY"); continue
            src = src.replace(m["old"], m["new"], 1)
            open(path, "w").write(src)
            if m["file"].endswith(".go"):
                sh(f"cd {WT} && gofmt -w {m['file']}")
            b = sh(f"cd {WT} && go build ./... 2>&1 | head -5", env=env)
            if b.stdout.strip():
                # try goimports-less fix: unused imports etc. are the mutant author's problem
                results.append(dict(id=m["id"], property=m["prop"], status="does-not-compile", detail=b.stdout[:300]))
                print(m["id"], "DOES NOT COMPILE", b.stdout[:200]); continue
            t0 = time.time()
            r = sh(f"cd {VERIF} && ./run.sh {m['prop']} quick", env=env)
            viol = [l for l in r.stdout.splitlines() if l.startswith("VIOLATION") or l.strip().startswith("clause=")]
            status = "detected" if r.returncode == 1 and viol else ("missed" if r.returncode == 0 else f"exit-{r.returncode}")
            clause = viol[1].strip().split()[0] if len(viol) > 1 else ""
            results.append(dict(id=m["id"], property=m["prop"], status=status, clause=clause, seconds=round(time.time()-t0, 1), note=m.get("note", "")))
            print(m["id"], status, clause, f"{time.time()-t0:.0f}s", flush=True)
            if status.startswith("exit-"):
                print(r.stdout[-600:])
    finally:
        sh(f"git -C {WT} checkout -- .")
        sh(f"git -C /repo worktree remove --force {WT}")
        sh("rm -rf /tmp/ev-sens")
    out = os.path.join(VERIF, "evidence", "sensitivity.json")
    prev = []
    if want and os.path.exists(out):
        prev = [x for x in json.load(open(out))["mutants"] if not any(x["id"].startswith(w) for w in want)]
    json.dump(dict(note="deliberately broken trees vs. the quick tier of the property's check (VERIF_SEED default); run by sensitivity/mutants.py against a scratch worktree, never against /repo", mutants=prev + results), open(out, "w"), indent=1)
    missed = [x["id"] for x in results if x["status"] != "detected"]
    print("not detected:", missed)

if __name__ == "__main__":
    main()
