#!/bin/bash
# Re-runs every stored seeded change the official way: git -C /repo apply; quick check; git -C /repo checkout -- .
# Updates seeded/<id>/meta.json (check_run, detected). Nothing else may read /repo meanwhile.
cd "$(dirname "$0")/.." || exit 2
for D in ${SEEDS:-seeded/*/}; do
  ID=$(basename "$D"); PROP=$(python3 -c "import json;print(json.load(open('$D/meta.json'))['property'])")
  if grep -q '"superseded_by_fix"' "$D/meta.json"; then echo "$ID: superseded by a fix commit (see meta.json), skipped"; continue; fi
  git -C /repo apply "$PWD/$D/patch.diff" || { echo "$ID: patch does not apply"; continue; }
  VERIF_EVIDENCE_DIR=/tmp/ev-rerun ./run.sh "$PROP" quick > /tmp/rerun-$ID.log 2>&1; RC=$?
  git -C /repo checkout -- .; git -C /repo clean -fdq   # (a patch may have added files)
  VLINE=$(grep -m1 '^VIOLATION' /tmp/rerun-$ID.log); CLAUSE=$(grep -m1 'clause=' /tmp/rerun-$ID.log | sed 's/^ *//')
  python3 - "$D/meta.json" "$RC" "$VLINE" "$CLAUSE" "$PROP" <<'PY'
import json,sys
p,rc,vl,cl,prop=sys.argv[1:6]
d=json.load(open(p))
d["check_run"]={"how":f"git -C /repo apply patch.diff; ./run.sh {prop} quick; git -C /repo checkout -- .","exit_status":int(rc),"violation_line":vl,"clause":cl}
d["detected"]=int(rc)==1
json.dump(d,open(p,"w"),indent=1)
PY
  echo "$ID: exit=$RC $CLAUSE"
done
rm -rf /tmp/ev-rerun
git -C /repo status --short
