// Package wire holds what the driver and the libsim worker exchange: a
// loss-free JSON encoding of bkl trees and the request / result records.
package wire

import (
	"bytes"
	"encoding/json"
	"fmt"
	"math"
	"sort"
	"strconv"
	"strings"
)

// Tree wraps a bkl tree (map[string]any, []any, string, int, float64, bool,
// nil) so that it survives JSON: ints print without and floats always with a
// '.', 'e' or as a wrapper; keys are sorted.
type Tree struct{ V any }

const (
	wrapFloat = "$verif:float"
	wrapType  = "$verif:type"
)

func (t Tree) MarshalJSON() ([]byte, error) {
	var b bytes.Buffer
	if err := encode(&b, t.V); err != nil {
		return nil, err
	}
	return b.Bytes(), nil
}

func encStr(b *bytes.Buffer, s string) {
	var tmp bytes.Buffer
	enc := json.NewEncoder(&tmp)
	enc.SetEscapeHTML(false)
	_ = enc.Encode(s)
	b.Write(bytes.TrimRight(tmp.Bytes(), "\n"))
}

func encode(b *bytes.Buffer, v any) error {
	switch x := v.(type) {
	case nil:
		b.WriteString("null")
	case bool:
		if x {
			b.WriteString("true")
		} else {
			b.WriteString("false")
		}
	case string:
		encStr(b, x)
	case int:
		b.WriteString(strconv.Itoa(x))
	case float64:
		if math.IsInf(x, 0) || math.IsNaN(x) {
			b.WriteString(`{"` + wrapFloat + `":`)
			encStr(b, strconv.FormatFloat(x, 'g', -1, 64))
			b.WriteString("}")
			return nil
		}
		s := strconv.FormatFloat(x, 'g', -1, 64)
		if !strings.ContainsAny(s, ".eE") {
			s += ".0"
		}
		b.WriteString(s)
	case map[string]any:
		keys := make([]string, 0, len(x))
		for k := range x {
			keys = append(keys, k)
		}
		sort.Strings(keys)
		b.WriteByte('{')
		for i, k := range keys {
			if i > 0 {
				b.WriteByte(',')
			}
			encStr(b, k)
			b.WriteByte(':')
			if err := encode(b, x[k]); err != nil {
				return err
			}
		}
		b.WriteByte('}')
	case []any:
		b.WriteByte('[')
		for i, e := range x {
			if i > 0 {
				b.WriteByte(',')
			}
			if err := encode(b, e); err != nil {
				return err
			}
		}
		b.WriteByte(']')
	case Opaque:
		b.WriteString(`{"` + wrapType + `":`)
		encStr(b, x.Type)
		b.WriteString(`,"repr":`)
		encStr(b, x.Repr)
		b.WriteString("}")
	default:
		// anything else a decoder may leave in a tree (int64, uint64,
		// float32, time values, ...) is kept distinguishable
		b.WriteString(`{"` + wrapType + `":`)
		encStr(b, fmt.Sprintf("%T", v))
		b.WriteString(`,"repr":`)
		encStr(b, fmt.Sprintf("%v", v))
		b.WriteString("}")
	}
	return nil
}

func (t *Tree) UnmarshalJSON(data []byte) error {
	dec := json.NewDecoder(bytes.NewReader(data))
	dec.UseNumber()
	var raw any
	if err := dec.Decode(&raw); err != nil {
		return err
	}
	v, err := fromRaw(raw)
	if err != nil {
		return err
	}
	t.V = v
	return nil
}

func fromRaw(raw any) (any, error) {
	switch x := raw.(type) {
	case json.Number:
		s := x.String()
		if strings.ContainsAny(s, ".eE") {
			return strconv.ParseFloat(s, 64)
		}
		n, err := strconv.ParseInt(s, 10, 64)
		if err != nil {
			return strconv.ParseFloat(s, 64)
		}
		return int(n), nil
	case map[string]any:
		if len(x) == 1 {
			if f, ok := x[wrapFloat].(string); ok {
				return strconv.ParseFloat(f, 64)
			}
		}
		if len(x) == 2 {
			if ty, ok := x[wrapType].(string); ok {
				repr, _ := x["repr"].(string)
				return Opaque{Type: ty, Repr: repr}, nil
			}
		}
		m := make(map[string]any, len(x))
		for k, v := range x {
			v2, err := fromRaw(v)
			if err != nil {
				return nil, err
			}
			m[k] = v2
		}
		return m, nil
	case []any:
		l := make([]any, len(x))
		for i, v := range x {
			v2, err := fromRaw(v)
			if err != nil {
				return nil, err
			}
			l[i] = v2
		}
		return l, nil
	default:
		return raw, nil
	}
}

// Opaque is a decoded non-plain value (only ever compared, never fed back).
type Opaque struct {
	Type string
	Repr string
}

// Canon returns the canonical JSON text of a tree (for hashing / equality).
func Canon(v any) string {
	var b bytes.Buffer
	if err := encode(&b, v); err != nil {
		return "!" + err.Error()
	}
	return b.String()
}

// Clone deep-copies a plain tree.
func Clone(v any) any {
	switch x := v.(type) {
	case map[string]any:
		m := make(map[string]any, len(x))
		for k, e := range x {
			m[k] = Clone(e)
		}
		return m
	case []any:
		l := make([]any, len(x))
		for i, e := range x {
			l[i] = Clone(e)
		}
		return l
	default:
		return v
	}
}

// Equal compares two plain trees strictly (int 1 != float 1.0).
func Equal(a, b any) bool { return Canon(a) == Canon(b) }
