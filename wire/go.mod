module wire

go 1.24.0
