package wire

// Sched is an iteration schedule as sent to a worker / instrumented CLI.
type Sched struct {
	Mode string  `json:"mode"` // Native | Hash | HashN | Asc | Desc | Rot
	Seed uint64  `json:"seed"`
	Coin float64 `json:"coin"`
	Rot  int     `json:"rot,omitempty"`
}

// WriterFault describes the io.Writer handed to OutputToWriter.
type WriterFault struct {
	Kind string `json:"kind"` // "" (good) | "fail_at" | "short"
	K    int    `json:"k"`    // byte offset at which the fault fires
}

// Op is one call on a task's parser.
type Op struct {
	Op      string       `json:"op"` // SetRoot MergeDocument MergeFile MergeFileLayers Documents Output OutputDocuments OutputToWriter OutputToFile Chdir
	ID      string       `json:"id,omitempty"`
	Parents []string     `json:"parents,omitempty"`
	Data    *Tree        `json:"data,omitempty"`
	Path    string       `json:"path,omitempty"`
	Format  string       `json:"format,omitempty"`
	Writer  *WriterFault `json:"writer,omitempty"`
	Snap    bool         `json:"snap,omitempty"` // attach a Documents() snapshot after this op
	// Share makes the caller's tree a DAG: for each pair, the value at key
	// path [1] becomes the very same Go object as the value at key path [0]
	// (a program that builds documents in Go may reuse one sub-map twice)
	Share [][2][]string `json:"share,omitempty"`
}

// TaskSpec is a sequence of ops on one fresh parser.
type TaskSpec struct {
	Ops []Op `json:"ops"`
	// Env is set in the process environment while this task runs (sequential
	// execution only) and restored afterwards: the environment is an input of
	// an evaluation and may differ between evaluations of one process.
	Env map[string]string `json:"env,omitempty"`
	// Debug turns the parser's debug log on (SetDebug(true)) before the first
	// op: logging is an observer and must not change any result.
	Debug bool `json:"debug,omitempty"`
}

// Switch is one recorded hand-over of the cooperative scheduler.
type Switch struct {
	At uint64 `json:"at"`
	To int    `json:"to"`
}

// Coop configures the cooperative task scheduler.
type Coop struct {
	Seed     uint64   `json:"seed"`
	Prob     float64  `json:"prob"`
	Replay   bool     `json:"replay,omitempty"`
	Switches []Switch `json:"switches,omitempty"`
}

// Request is one simulated run.
type Request struct {
	Run    int64      `json:"run"`
	Sched  Sched      `json:"sched"`
	Budget int64      `json:"budget"`
	Tasks  []TaskSpec `json:"tasks"`
	Coop   *Coop      `json:"coop,omitempty"`
	// Real asks for real goroutines (one per task, no scheduler): only
	// meaningful in the -race worker.
	Real bool `json:"real,omitempty"`
	// Cwd is the directory file ops are relative to.
	Cwd string            `json:"cwd,omitempty"`
	Env map[string]string `json:"env,omitempty"`
}

// DocSnap is one entry of a Documents() snapshot.
type DocSnap struct {
	ID      string   `json:"id"`
	Parents []string `json:"parents"`
	Data    Tree     `json:"data"`
}

// OpResult is the outcome of one op.
type OpResult struct {
	Outcome string    `json:"outcome"` // ok | err | panic | budget | skipped
	Err     string    `json:"err,omitempty"`
	Bytes   *string   `json:"bytes,omitempty"` // Output / what reached the writer or file
	Outs    []Tree    `json:"outs,omitempty"`  // OutputDocuments
	HasOuts bool      `json:"has_outs,omitempty"`
	Docs    []DocSnap `json:"docs,omitempty"`
	HasDocs bool      `json:"has_docs,omitempty"`
	Aliased bool      `json:"aliased,omitempty"` // a container is reachable from two documents
	Written int       `json:"written,omitempty"`
}

// Probes mirrors simrt.Probes.
type Probes struct {
	Ranges          int64         `json:"ranges"`
	RangesMulti     int64         `json:"ranges_multi"`
	CreatedSeen     int64         `json:"created_seen"`
	CreatedProduced int64         `json:"created_produced"`
	CreatedSkipped  int64         `json:"created_skipped"`
	DeletedSkipped  int64         `json:"deleted_skipped"`
	Switches        int64         `json:"switches"`
	MaxSteps        int64         `json:"max_steps"`
	Steps           int64         `json:"steps"`
	Sig             uint64        `json:"sig"`
	PerSite         map[int]int64 `json:"per_site,omitempty"`
}

// Result is the worker's answer to a Request.
type Result struct {
	Run          int64        `json:"run"`
	Tasks        [][]OpResult `json:"tasks"`
	Probes       Probes       `json:"probes"`
	Switches     []Switch     `json:"switches,omitempty"`
	Instrumented bool         `json:"instrumented"`
	// Crash is set by the driver (not the worker) when the worker died.
	Crash     bool   `json:"crash,omitempty"`
	CrashTask int    `json:"crash_task,omitempty"` // task and op in flight when the worker died
	CrashOp   int    `json:"crash_op,omitempty"`
	Stderr    string `json:"stderr,omitempty"`
}
